#!/bin/sh
# final pass: every seeded change (or those matching the glob given as $1, e.g. '*-[GRX]*') applied to /repo itself (git apply),
# the property's own check (+ checks that caught it before) run, git checkout -- .   Needs /repo to be otherwise unused.
cd /verif
for d in seeded/${1:-*}/; do
  [ -f "$d/patch.diff" ] || continue
  id=$(basename $d)
  prop=$(echo $id | cut -d- -f1)
  extra=$(/venv/bin/python -c "
import json,sys
m=json.load(open('$d/meta.json')); det=[c for c in m.get('detected_by',[]) if c!='$prop']
print(','.join(['$prop']+det))")
  /venv/bin/python -m hv.seedeval $d --checks $extra --inplace 2>&1 | grep -v "validation ok" | cut -c1-160
done
git -C /repo status --short | head -3
