from hv import svm


class Emulator:
    """Replays the committed event stream of the exhaustive exploration."""

    def __init__(self, prog, ctx):
        self.prog = prog
        self.ctx = ctx
        self._ev = None
        self._i = 0

    def step(self):
        if self._ev is None:
            r = svm.run(self.prog, 5_000_000)
            assert r.outcome in ('loop', 'halt'), (r.outcome, r.trap)
            self._halt = r.outcome == 'halt'
            self._ev = list(r.pre)
            self._period = list(r.period)
        if self._i < len(self._ev):
            k, v = self._ev[self._i]
            self._i += 1
            if k == 'y':
                self.ctx.output(bytes([v]))
            elif k == 's':
                self.ctx.sleep(v)
            else:
                self.ctx.on_flag(self.prog, v)
            return True
        if self._halt:
            return False
        for k, v in self._period:
            if k == 'y':
                self.ctx.output(bytes([v]))
            elif k == 's':
                self.ctx.sleep(v)
            else:
                self.ctx.on_flag(self.prog, v)
        return True
