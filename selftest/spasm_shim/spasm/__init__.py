"""Minimal stand-in for the `spasm` package (github.com/benburrill/sphinx) backed by
the verification VM, so that upstream's tests/test_codegen.py can run unmodified:
    PYTHONPATH=/verif/selftest/spasm_shim:/verif pytest /repo/tests/test_codegen.py
This is a conformance self-test of hv.svm, not a property check."""
