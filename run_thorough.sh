#!/bin/sh
# runs every thorough check in sequence; used with `vp run` to measure wall time and look for deeper violations
for p in "$@"; do
  /usr/bin/time -f "$p wall=%es" /venv/bin/python -m hv.check $p --tier thorough 2>&1 | grep -v "^    \|^}" | cut -c1-400 | tail -8
done
