"""CLI: python -m hv.replay <replay.json> -- re-executes one recorded violation
against /repo's current tree, without the explorer.  Exit 1 if it still fails."""
import json
import sys

from . import runner


def main():
    if sys.argv[1] == '--item':
        # internal: print the violation keys of one work item, run in this fresh interpreter
        pid, tier, idx = sys.argv[2], sys.argv[3], int(sys.argv[4])
        vs = runner.run_one_item(pid, tier, idx)
        print(json.dumps([runner.viol_key(v) for v in vs]))
        sys.exit(0)
    path = sys.argv[1]
    with open(path) as f:
        rec = json.load(f)
    mod = runner.load_check(rec['property'])
    case = rec['case']
    if isinstance(case, dict) and case.get('kind') == '_item':
        # history-dependent violation: replay the whole (deterministic) work item it occurred in
        vs = runner.run_one_item(rec['property'], case['tier'], case['item'])
        msgs = [v.get('msg') for v in vs if runner.viol_key(v) == case['key']]
    else:
        msgs = mod.replay(case)
    if msgs:
        print(f"VIOLATION property={rec['property']} replay={path}")
        for m in msgs:
            print('  ' + str(m))
        sys.exit(1)
    print(f"replay of {path}: property {rec['property']} holds on this case now")
    sys.exit(0)


if __name__ == '__main__':
    main()
