"""CLI: python -m hv.replay <replay.json> -- re-executes one recorded violation
against /repo's current tree, without the explorer.  Exit 1 if it still fails."""
import json
import sys

from . import runner


def main():
    path = sys.argv[1]
    with open(path) as f:
        rec = json.load(f)
    mod = runner.load_check(rec['property'])
    msgs = mod.replay(rec['case'])
    if msgs:
        print(f"VIOLATION property={rec['property']} replay={path}")
        for m in msgs:
            print('  ' + str(m))
        sys.exit(1)
    print(f"replay of {path}: property {rec['property']} holds on this case now")
    sys.exit(0)


if __name__ == '__main__':
    main()
