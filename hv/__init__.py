"""hv: model-checking machinery for the hidc compiler (see /verif/DESIGN.md)."""
