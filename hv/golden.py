"""Golden self-test of hv.svm on hand-written assembly (never produced by hidc).
Run before every check; a failure is a harness error (exit 2), never a VIOLATION."""
from . import svm


def _run(text, argv=(), **kw):
    P = svm.assemble([l.encode() for l in text.strip().split('\n')], argv)
    return svm.run(P, 200000, **kw)


def _ev(r):
    return svm.fmt_trace(r.trace)


CASES = []


def case(f):
    CASES.append(f)
    return f


@case
def upstream_basic():
    r = _run("""
%argv <count>
%section state
counter: .arg count word
%section code
loop:
yield [counter]
sub [counter], [counter], 1
j loop
hge [counter], 0
flag win
tnt: j tnt
halt
""", ['3'])
    assert r.outcome == 'loop' and r.output == bytes([3, 2, 1, 0]) and r.flags == ['win'] and r.period == (), _ev(r)


@case
def committed_halt():
    r = _run("""
%format word 2
%section code
yield 'a'
halt
""")
    assert r.outcome == 'halt' and r.output == b'a'


@case
def jump_iff_nojump_halts():
    # j taken only because falling through halts; output of the abandoned path is not observable
    r = _run("""
%format word 2
%section code
j over
yield 'x'
halt
over:
yield 'y'
end: sleep 5
j end
halt
""")
    assert r.outcome == 'loop' and r.output == b'y' and r.period == (('s', 5),), _ev(r)


@case
def jump_not_taken_over_infinite_loop():
    # the no-jump future never halts (it loops with output) so the jump is not taken
    r = _run("""
%format word 2
%section code
j never
spin:
yield 'a'
j spin
halt
never:
yield 'z'
halt
""")
    assert r.outcome == 'loop' and r.pre == () and r.period == (('y', 97),), _ev(r)


@case
def nested_three_levels():
    # three pending jumps; the innermost must be taken, then the middle one, outer one not
    r = _run("""
%format word 2
%section state
x: .word 0
%section code
j outer
add [x], [x], 1
j middle
add [x], [x], 2
j inner
add [x], [x], 4
halt
inner:
add [x], [x], 8
hne [x], 99
halt
middle:
add [x], [x], 16
yield [x]
win: j win
halt
outer:
yield 'o'
halt
""")
    # path: x=1, (middle not jumped) x=3, inner: no-jump halts -> jump: x=11, hne halts -> roll back to
    # middle: jump: x = 1+16 = 17, yield 17, loop forever -> outer never taken
    assert r.outcome == 'loop' and r.output == bytes([17]) and r.maxdepth == 3, (_ev(r), r.maxdepth)


@case
def arithmetic_and_memory():
    r = _run("""
%format word 2
%section state
a: .word 0
b: .word 0
buf: .zero 4
%section const
k: .word 0x1234, -2
s: .ascii "hi\\n\\x00\\\\"
%section code
mov [a], 7
mul [a], [a], -3
yield [a]
div [b], [a], 2
yield [b]
mod [b], [a], 5
yield [b]
div [b], 7, -2
yield [b]
mod [b], 7, -2
yield [b]
asr [b], -16, 2
yield [b]
asl [b], 3, 4
yield [b]
and [b], 0xff, 0x0f
yield [b]
or [b], 0xf0, 0x0f
yield [b]
xor [b], 0xff, 0x0f
yield [b]
lwc [a], k
yield [a]
lwco [a], k, 1w
yield [a]
lbc [a], s
yield [a]
lbco [a], s, 4
yield [a]
sws buf, 0x4142
lbs [a], buf
yield [a]
lbso [a], buf, 1
yield [a]
sbso buf, 2, 0x143
swso buf, 2, 0x4445
lwso [a], buf, 2
yield [a]
lws [a], buf
yield [a]
sbs buf, 'z'
lbs [a], buf
yield [a]
sub [a], 0, 1
hgeu [a], 1
yield 'n'
halt
""")
    exp = [(-21) & 0xFF, (-11) & 0xFF, 4, (-4) & 0xFF, (-1) & 0xFF, (-4) & 0xFF, 48, 0x0f, 0xff, 0xf0,
           0x34, 0xfe, ord('h'), ord('\\'), 0x42, 0x41, 0x45, 0x42, ord('z')]
    assert list(r.output) == exp and r.outcome == 'halt', (list(r.output), exp, r.outcome, r.trap)


@case
def conditional_halts_signed_unsigned():
    prog = ["%format word 2", "%section code"]
    tests = [('heq', 5, 5, True), ('heq', 5, 6, False), ('hne', 5, 6, True), ('hne', 5, 5, False),
             ('hlt', -1, 0, True), ('hlt', 0, -1, False), ('hltu', -1, 0, False), ('hltu', 0, -1, True),
             ('hgt', 0, -1, True), ('hgtu', 0, -1, False), ('hgtu', -1, 0, True),
             ('hle', 3, 3, True), ('hle', 4, 3, False), ('hleu', -1, 3, False), ('hleu', 3, -1, True),
             ('hge', 3, 3, True), ('hge', -5, 3, False), ('hgeu', -5, 3, True), ('hgeu', 3, -5, False),
             ('hlt', 32767, -32768, False), ('hgt', 32767, -32768, True)]
    for i, (op, a, b, h) in enumerate(tests):
        prog += [f'j t{i}', f'{op} {a}, {b}', f"yield 'N'", f'j e{i}', 'halt', f't{i}:', f"yield 'H'", f'e{i}:']
    prog += ['w: j w', 'halt']
    r = _run('\n'.join(prog))
    exp = ''.join('H' if h else 'N' for *_, h in tests).encode()
    assert r.output == exp and r.outcome == 'loop', (r.output, exp)


@case
def word_sizes_and_wrap():
    for W, exp in ((2, 0x10000), (3, 0x1000000), (4, 0x100000000)):
        r = _run(f"""
%format word {W}
%section state
a: .word -1
%section code
add [a], [a], 2
yield [a]
sub [a], 0, 1
j big
hltu [a], {exp - 1}
yield 's'
halt
big:
yield 'b'
halt
""")
        assert r.output == b'\x01b', (W, r.output)


@case
def argv_layouts():
    r = _run("""
%argv <m> [<xs>...] <t>
%format word 2
%section state
pm: .arg m asciip
px: .arg xs word
pt: .arg t byte
n: .word $argc - 2
%section const
ps: .arg xs asciip array
%section code
lws [n], pm
yield [n]
lbso [n], pm, 2
yield [n]
lwso [n], px, 1w
yield [n]
lbs [n], pt
yield [n]
lws [n], n
lwc [n], ps
yield [n]
lwco [n], ps, 1w
yield [n]
lwc [n], 4
yield [n]
lbc [n], 6
yield [n]
halt
""", ['ab', '10', '-3', '300'])
    # pm: len 2,'a'; xs word: [10,-3] -> second = -3 -> 0xfd; t byte 300 -> 44
    # ps: table at 0: [4, 4+2+2=8]; at 4: len("10")=2, '1','0'; at 8: len 2 "-3"
    assert list(r.output) == [2, ord('a'), 0xfd, 44, 4, 8, 2, ord('1')], list(r.output)


@case
def rollback_restores_memory_and_events():
    r = _run("""
%format word 2
%section state
x: .word 1
%section code
j alt
mov [x], 2
yield [x]
flag debug
sleep 3
halt
alt:
yield [x]
e: j e
halt
""")
    assert r.output == b'\x01' and r.flags == [] and r.rollbacks >= 1


@case
def strictness():
    bad = [
        ['%format word 2', '%section code', 'frob [a], 1'],
        ['%format word 2', '%section code', 'mov 5, 1'],
        ['%format word 2', '%section code', 'j nowhere'],
        ['%format word 2', '%section code', 'a:', 'a:', 'halt'],
        ['%format word 2', '%section const', "c: .ascii \"a\\\\\\\"", '%section code', 'halt'],
        ['%format word 2', '%section code', "yield '\\\\\\'"],
        ['%format word 2', '%section state', 'z: .zero -1w', '%section code', 'halt'],
        ['%format word 2', '%section code', 'add [a], 1'],
    ]
    for lines in bad:
        try:
            svm.assemble([l.encode() for l in lines])
        except svm.AsmError:
            continue
        raise AssertionError(f'assembler accepted {lines}')


@case
def canonical_traces():
    assert svm.canon_trace([1, 2, 3], [3, 3]) == ((1, 2), (3,))
    assert svm.canon_trace([1, 2], [3, 2, 3, 2]) == ((1,), (2, 3))
    assert svm.canon_trace([], []) == ((), ())
    assert svm.canon_trace([5], []) == ((5,), ())


def run_all():
    for f in CASES:
        f()
    return len(CASES)


if __name__ == '__main__':
    print(f'{run_all()} golden cases passed')
