"""CLI: python -m hv.check C01 --tier quick|thorough"""
import argparse
import os
import sys

from . import runner


def main():
    ap = argparse.ArgumentParser()
    ap.add_argument('pid')
    ap.add_argument('--tier', default=os.environ.get('VERIF_TIER', 'quick'), choices=['quick', 'thorough'])
    ap.add_argument('--jobs', type=int, default=None)
    ap.add_argument('--only', type=str, default=None, help='comma separated work-item indices (debugging)')
    a = ap.parse_args()
    seed = int(os.environ.get('VERIF_SEED', '0') or 0)
    only = [int(x) for x in a.only.split(',')] if a.only else None
    sys.exit(runner.run_check(a.pid.upper(), a.tier, seed, a.jobs, only))


if __name__ == '__main__':
    main()
