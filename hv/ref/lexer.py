"""Reference tokenizer for Halt is Defeat, written from the README's token classes:
maximal munch over {symbols, keywords/identifiers (optionally flavoured with @ or !),
integer literals (decimal, 0x, 0o, 0b with single `_` separators between digits),
character literals, string literals}; whitespace and `//` comments separate tokens.

Tokens are (kind, value, (line, col_start), (line, col_end)) with 0-based positions in
characters; kinds: 'sym', 'kw', 'ident' (value = (flavour, name)), 'int', 'char', 'str',
'bool'.  Errors raise RefLexError(line, col) -- only the fact of an error is compared.
"""

SYMBOLS = ['??', '==', '!=', '<=', '>=', '+=', '-=', '*=', '/=', '%=',
           '+', '-', '*', '/', '%', '<', '>', '=', ';', ',', '.', '(', ')', '{', '}', '[', ']']
KEYWORDS = {'or', 'and', 'not', 'is', 'break', 'continue', 'return', 'const', 'if', 'else', 'while', 'for',
            'try', 'undo', 'stop', 'preempt', 'int', 'bool', 'byte', 'string', 'empty'}
BOOLS = {'true': True, 'false': False}
ESCAPES = {'a': 7, 'b': 8, 'f': 12, 'n': 10, 'r': 13, 't': 9, '0': 0, "'": 39, '"': 34, '\\': 92}

_ID_START = set('abcdefghijklmnopqrstuvwxyzABCDEFGHIJKLMNOPQRSTUVWXYZ_')
_HEX = set('0123456789abcdefABCDEF')


class RefLexError(Exception):
    def __init__(self, line, col, msg=''):
        super().__init__(f'{line + 1}:{col + 1}: {msg}')
        self.line = line
        self.col = col


def _is_word(c):
    # \w for str patterns: alphanumerics (unicode) and underscore
    return c == '_' or c.isalnum()


def _is_digit(c):
    return c.isdigit()      # \d on str matches any Unicode decimal digit


def _ident_end(s, i):
    n = len(s)
    while i < n and _is_word(s[i]):
        i += 1
    return i


def _digits(s, i, ok):
    """Longest d(_?d)* starting at i with digits from `ok`; returns end index or i if none."""
    n = len(s)
    if i >= n or not ok(s[i]):
        return i
    j = i + 1
    while True:
        if j < n and ok(s[j]):
            j += 1
        elif j + 1 < n and s[j] == '_' and ok(s[j + 1]):
            j += 2
        else:
            return j


def _escape(s, i, line):
    """s[i] == '\\'.  Returns (bytes, new index)."""
    n = len(s)
    if i + 1 >= n:
        raise RefLexError(line, i, 'dangling backslash')
    c = s[i + 1]
    if c == 'x':
        if i + 3 < n and s[i + 2] in _HEX and s[i + 3] in _HEX:
            return bytes([int(s[i + 2:i + 4], 16)]), i + 4
        raise RefLexError(line, i, 'bad byte escape')
    if c == 'u':
        if i + 2 < n and s[i + 2] == '{':
            j = i + 3
            while j < n and s[j] in _HEX:
                j += 1
            if j > i + 3 and j < n and s[j] == '}':
                cp = int(s[i + 3:j], 16)
                if cp > 0x10FFFF or 0xD800 <= cp <= 0xDFFF:
                    raise RefLexError(line, i, 'not a Unicode scalar value')
                return chr(cp).encode('utf-8'), j + 1
        raise RefLexError(line, i, 'bad unicode escape')
    if c in ESCAPES:
        return bytes([ESCAPES[c]]), i + 2
    raise RefLexError(line, i, 'bad escape')


def _encode(ch, line, col):
    try:
        return ch.encode('utf-8')
    except UnicodeEncodeError:
        raise RefLexError(line, col, 'unencodable character')


def tokenize(text):
    """Tokenize a whole source text; lines are separated by '\\n' only (as hidc's SourceCode does)."""
    toks = []
    for ln, s in enumerate(text.split('\n')):
        i = 0
        n = len(s)
        while i < n:
            c = s[i]
            if c.isspace():
                i += 1
                continue
            if s.startswith('//', i):
                break
            start = i
            # symbols, longest first
            sym = None
            for sy in SYMBOLS:
                if s.startswith(sy, i):
                    sym = sy
                    break
            if sym is not None:
                i += len(sym)
                toks.append(('sym', sym, (ln, start), (ln, i)))
                continue
            if c == '@' or c == '!':
                if i + 1 < n and s[i + 1] in _ID_START:
                    j = _ident_end(s, i + 1)
                    name = s[i + 1:j]
                    if name in KEYWORDS or name in BOOLS:
                        raise RefLexError(ln, i, 'flavoured keyword')
                    toks.append(('ident', (c, name), (ln, start), (ln, j)))
                    i = j
                    continue
                raise RefLexError(ln, i, 'flavour without identifier')
            if c in _ID_START:
                j = _ident_end(s, i)
                name = s[i:j]
                if name in BOOLS:
                    toks.append(('bool', BOOLS[name], (ln, start), (ln, j)))
                elif name in KEYWORDS:
                    toks.append(('kw', name, (ln, start), (ln, j)))
                else:
                    toks.append(('ident', ('', name), (ln, start), (ln, j)))
                i = j
                continue
            if _is_digit(c):
                val = None
                if c == '0' and i + 1 < n and s[i + 1] in 'xob':
                    base, ok = {'x': (16, lambda ch: ch in _HEX),
                                'o': (8, lambda ch: ch in '01234567'),
                                'b': (2, lambda ch: ch in '01')}[s[i + 1]]
                    j = _digits(s, i + 2, ok)
                    if j > i + 2:
                        val = int(s[i + 2:j].replace('_', ''), base)
                if val is None:
                    j = _digits(s, i, _is_digit)
                    val = int(s[i:j].replace('_', ''), 10)
                toks.append(('int', val, (ln, start), (ln, j)))
                i = j
                continue
            if c == "'":
                i += 1
                if i >= n:
                    raise RefLexError(ln, i, 'unclosed char')
                if s[i] == "'":
                    raise RefLexError(ln, i, 'empty char')
                if s[i] == '\\':
                    b, i = _escape(s, i, ln)
                else:
                    b = _encode(s[i], ln, i)
                    i += 1
                if i >= n or s[i] != "'":
                    raise RefLexError(ln, i, "expected '")
                i += 1
                if len(b) != 1:
                    raise RefLexError(ln, i, 'multi-byte char')
                toks.append(('char', b[0], (ln, start), (ln, i)))
                continue
            if c == '"':
                i += 1
                out = bytearray()
                while True:
                    if i >= n:
                        raise RefLexError(ln, i, 'unclosed string')
                    ch = s[i]
                    if ch == '"':
                        i += 1
                        break
                    if ch == '\\':
                        b, i = _escape(s, i, ln)
                        out += b
                    else:
                        out += _encode(ch, ln, i)
                        i += 1
                toks.append(('str', bytes(out), (ln, start), (ln, i)))
                continue
            raise RefLexError(ln, i, f'unexpected character {c!r}')
    return toks
