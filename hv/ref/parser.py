"""Independent recursive-descent / precedence-climbing parser from HiD source text to
HiD-core, over the reference tokenizer.  Used (a) by generators, so that program
families can be written as readable source snippets, and (b) as the independent
expression parser of C11.  Context (flavour) rules are NOT enforced here; that is
ref/context.py's job."""
from .lexer import tokenize
from .core import INT, BYTE, BOOL, STRING, EMPTY

BINPREC = {'or': 2, 'and': 3, '==': 4, '!=': 4, '<': 4, '<=': 4, '>': 4, '>=': 4,
           '+': 5, '-': 5, '*': 6, '/': 6, '%': 6}
TYPES = {'int', 'bool', 'byte', 'string'}
INC = {'+=': '+', '-=': '-', '*=': '*', '/=': '/', '%=': '%'}


class RefParseError(Exception):
    pass


class P:
    def __init__(self, toks):
        self.t = toks
        self.i = 0

    def peek(self, k=0):
        j = self.i + k
        return self.t[j] if j < len(self.t) else ('eof', None, None, None)

    def at(self, kind, val=None, k=0):
        t = self.peek(k)
        return t[0] == kind and (val is None or t[1] == val)

    def sym(self, v, k=0):
        return self.at('sym', v, k)

    def kw(self, v, k=0):
        return self.at('kw', v, k)

    def next(self):
        t = self.peek()
        self.i += 1
        return t

    def expect(self, kind, val=None):
        if not self.at(kind, val):
            raise RefParseError(f'expected {val or kind}, got {self.peek()[:2]}')
        return self.next()

    # ---- types
    def at_type(self, k=0):
        t = self.peek(k)
        return t[0] == 'kw' and t[1] in TYPES

    # ---- expressions
    def expr(self):
        left = self.binary(2)
        if self.sym('??'):
            self.next()
            right = self.binary(2)
            return ('spec', left, right)
        return left

    def binary(self, minp):
        left = self.cast()
        while True:
            t = self.peek()
            op = t[1] if t[0] in ('sym', 'kw') else None
            p = BINPREC.get(op)
            if p is None or p < minp:
                return left
            self.next()
            right = self.binary(p + 1)
            left = ('bin', op, left, right)

    def cast(self):
        e = self.unary()
        if self.kw('is'):
            self.next()
            t = self.expect('kw')[1]
            if t not in TYPES:
                raise RefParseError('expected type after is')
            if self.sym('['):
                self.next()
                self.expect('sym', ']')
                t = ('arr', t, True)
            return ('is', e, t)
        return e

    def unary(self):
        if self.sym('+') or self.sym('-'):
            op = self.next()[1]
            return ('un', op, self.unary())
        if self.kw('not'):
            self.next()
            return ('un', 'not', self.unary())
        return self.postfix()

    def postfix(self):
        e = self.primary()
        while True:
            if self.sym('.'):
                self.next()
                t = self.expect('ident')
                if t[1] != ('', 'length'):
                    raise RefParseError('expected length')
                e = ('len', e)
            elif self.sym('['):
                self.next()
                i = self.expr()
                self.expect('sym', ']')
                e = ('idx', e, i)
            else:
                return e

    def primary(self):
        t = self.peek()
        if t[0] == 'sym' and t[1] == '(':
            self.next()
            e = self.expr()
            self.expect('sym', ')')
            if e[0] == 'spec':
                return ('paren', e)
            return e
        if t[0] == 'int':
            self.next()
            return ('int', t[1])
        if t[0] == 'char':
            self.next()
            return ('chr', t[1])
        if t[0] == 'str':
            self.next()
            return ('str', t[1])
        if t[0] == 'bool':
            self.next()
            return ('bool', t[1])
        if t[0] == 'sym' and t[1] == '[':
            self.next()
            items = []
            if not self.sym(']'):
                items.append(self.expr())
                while self.sym(','):
                    self.next()
                    items.append(self.expr())
            self.expect('sym', ']')
            return ('arr', tuple(items))
        if t[0] == 'ident':
            self.next()
            name = t[1][0] + t[1][1]
            if self.sym('('):
                self.next()
                args = []
                if not self.sym(')'):
                    args.append(self.expr())
                    while self.sym(','):
                        self.next()
                        args.append(self.expr())
                self.expect('sym', ')')
                return ('call', name, tuple(args))
            if t[1][0]:
                raise RefParseError('flavoured variable')
            return ('var', name)
        raise RefParseError(f'expected expression, got {t[:2]}')

    # ---- statements
    def at_decl(self):
        if self.kw('const'):
            return True
        return self.at_type()

    def decl(self):
        const = False
        if self.kw('const'):
            self.next()
            const = True
        t = self.expect('kw')[1]
        if t not in TYPES:
            raise RefParseError('expected type')
        if self.sym('['):
            self.next()
            self.expect('sym', ']')
            t = ('arr', t, const)
            const = True
        name = self.expect('ident')[1]
        if name[0]:
            raise RefParseError('flavoured variable name')
        return const, t, name[1]

    def vdecl(self):
        const, t, name = self.decl()
        if self.sym('['):
            if isinstance(t, tuple):
                raise RefParseError('unexpected [')
            self.next()
            n = self.expr()
            self.expect('sym', ']')
            if const:
                return ('cadecl', t, name, n)
            return ('adecl', t, name, n)
        self.expect('sym', '=')
        e = self.expr()
        return ('decl', const, t, name, e)

    def plain(self, allow_decl=True):
        if allow_decl and self.at_decl():
            return self.vdecl()
        e = self.expr()
        if self.sym('='):
            self.next()
            return ('set', e, self.expr())
        t = self.peek()
        if t[0] == 'sym' and t[1] in INC:
            self.next()
            return ('iset', INC[t[1]], e, self.expr())
        return ('expr', e)

    def stmt(self):
        if self.kw('break'):
            self.next()
            self.expect('sym', ';')
            return ('break',)
        if self.kw('continue'):
            self.next()
            self.expect('sym', ';')
            return ('continue',)
        if self.kw('return'):
            self.next()
            e = None if self.sym(';') else self.expr()
            self.expect('sym', ';')
            return ('ret', e)
        if self.at_block():
            return self.blockstmt()
        s = self.plain()
        self.expect('sym', ';')
        return s

    def at_block(self):
        t = self.peek()
        return (t[0] == 'sym' and t[1] == '{') or (t[0] == 'kw' and t[1] in ('if', 'while', 'for', 'try', 'preempt'))

    def blockstmt(self):
        if self.sym('{'):
            self.next()
            out = []
            while not self.sym('}'):
                if self.sym(';'):
                    self.next()
                    continue
                out.append(self.stmt())
            self.next()
            return ('block', tuple(out))
        k = self.next()[1]
        if k == 'if':
            self.expect('sym', '(')
            c = self.expr()
            self.expect('sym', ')')
            th = self.blockstmt()
            el = None
            if self.kw('else'):
                self.next()
                el = self.blockstmt()
            return ('if', c, th, el)
        if k == 'while':
            self.expect('sym', '(')
            c = self.expr()
            self.expect('sym', ')')
            return ('while', c, self.blockstmt())
        if k == 'for':
            self.expect('sym', '(')
            init = None if self.sym(';') else self.plain()
            self.expect('sym', ';')
            cond = None if self.sym(';') else self.expr()
            self.expect('sym', ';')
            cont = None if self.sym(')') else self.plain(allow_decl=False)
            self.expect('sym', ')')
            return ('for', init, cond, cont, self.blockstmt())
        if k == 'try':
            body = self.blockstmt()
            h = self.expect('kw')[1]
            if h not in ('undo', 'stop'):
                raise RefParseError('expected undo or stop')
            return ('try', body, h, self.blockstmt())
        if k == 'preempt':
            return ('preempt', self.blockstmt())
        raise RefParseError(k)

    def program(self):
        globs = []
        funcs = []
        while not self.at('eof'):
            if self.sym(';'):
                self.next()
                continue
            t0, t1, t2 = self.peek(), self.peek(1), self.peek(2)
            if t0[0] == 'kw' and (t0[1] in TYPES or t0[1] == 'empty') and t1[0] == 'ident' and t2[0] == 'sym' and t2[1] == '(':
                self.next()
                self.next()
                self.next()
                params = []
                if not self.sym(')'):
                    while True:
                        c, t, n = self.decl()
                        params.append((t, n, True) if (c and not isinstance(t, tuple)) else (t, n))
                        if self.sym(','):
                            self.next()
                            continue
                        break
                self.expect('sym', ')')
                body = self.blockstmt()
                if body[0] != 'block':
                    raise RefParseError('function body must be a code block')
                funcs.append((t0[1], t1[1][0] + t1[1][1], tuple(params), body))
            else:
                globs.append(self.vdecl())
                self.expect('sym', ';')
        return {'globals': tuple(globs), 'funcs': tuple(funcs)}


def _strip_paren(x):
    if isinstance(x, dict):
        return {k: _strip_paren(v) for k, v in x.items()}
    if isinstance(x, tuple):
        if x and x[0] == 'paren':
            return _strip_paren(x[1])
        return tuple(_strip_paren(y) for y in x)
    return x


def parse_program(text):
    p = P(tokenize(text))
    return _strip_paren(p.program())


def parse_stmts(text):
    p = P(tokenize(text))
    out = []
    while not p.at('eof'):
        if p.sym(';'):
            p.next()
            continue
        out.append(p.stmt())
    return _strip_paren(tuple(out))


def parse_expr(text, keep_paren=False):
    p = P(tokenize(text))
    e = p.expr()
    if not p.at('eof'):
        raise RefParseError(f'trailing tokens: {p.peek()[:2]}')
    return e if keep_paren else _strip_paren(e)
