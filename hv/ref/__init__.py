"""Reference model of Halt is Defeat (DESIGN.md section 4)."""
