"""Reference typing judgement for HiD-core, written from the README (sections "Types",
"Arrays and strings", "Language reference") and the rule list of property C07.

`elaborate(prog)` either returns an elaborated program (every expression annotated
with its type, every implicit coercion and overload choice made explicit) for the
reference interpreter, or raises `Reject` (a documented rule is broken) or
`Unspecified` (the documentation is silent; never compared with the implementation).

Elaborated expressions:
 ('lit', T, v) ('var', T, name) ('idx', T, src, i) ('len', 'int', src) ('call', T, fkey, args)
 ('un', T, op, e) ('bin', T, op, a, b) ('cast', T, kind, e) ('arr', T, elems) ('spec', T, a, b)
"""
from .core import INT, BYTE, BOOL, STRING, EMPTY, is_arr, arr, ptype


class Reject(Exception):
    """A documented rule is broken.  kind: 'type' (typing rule) or 'context' (placement rule of C06)."""

    def __init__(self, msg, kind='type'):
        super().__init__(msg)
        self.kind = kind


class Unspecified(Exception):
    pass


class TE:
    """Typed expression: elaborated form, type, literal-likeness, array-literal info."""
    __slots__ = ('e', 't', 'shrink', 'lit_elems', 'locked', 'isvar', 'const')

    def __init__(self, e, t, shrink=False, lit_elems=None, locked=False, isvar=False, const=False):
        self.e = e
        self.t = t
        self.shrink = shrink
        self.lit_elems = lit_elems
        self.locked = locked
        self.isvar = isvar
        self.const = const


BUILTINS = [
    ('!is_defeat', (), EMPTY), ('!truth_is_defeat', (BOOL,), EMPTY),
    ('write', (STRING,), EMPTY), ('write', (arr(BYTE, True),), EMPTY), ('write', (INT,), EMPTY),
    ('write', (BYTE,), EMPTY), ('write', (BOOL,), EMPTY),
    ('writeln', (STRING,), EMPTY), ('writeln', (arr(BYTE, True),), EMPTY), ('writeln', (INT,), EMPTY),
    ('writeln', (BYTE,), EMPTY), ('writeln', (BOOL,), EMPTY), ('writeln', (), EMPTY),
    ('all_is_win', (), EMPTY), ('all_is_broken', (), EMPTY), ('sleep', (INT,), EMPTY),
    ('debug', (), EMPTY), ('progress', (), EMPTY),
]


def coercible(te, target):
    if te.t == target:
        return True
    if te.lit_elems is not None:
        if not is_arr(target):
            return False
        if te.locked:
            return te.t[1] == target[1]
        return all(coercible(x, target[1]) for x in te.lit_elems)
    if is_arr(te.t):
        return is_arr(target) and te.t[1] == target[1] and target[2] and not te.t[2]
    if te.t == BYTE and target == INT:
        return True
    if te.t == STRING and target == arr(BYTE, True):
        return True
    if te.t == INT and target == BYTE:
        if te.shrink is None:
            raise Unspecified('literal-likeness of an explicitly cast literal')
        return bool(te.shrink)
    return False


def coerce(te, target):
    """Implicit coercion; returns a TE of type `target` or raises Reject."""
    if not coercible(te, target):
        raise Reject(f'{ptype(te.t)} is not {ptype(target)}')
    if te.lit_elems is not None:
        elems = tuple(coerce(x, target[1]).e for x in te.lit_elems)
        return TE(('arr', target, elems), target, lit_elems=None)
    if te.t == target:
        return te
    if is_arr(te.t):
        return TE(te.e, target)                      # const view of a mutable array: same object
    if te.t == BYTE and target == INT:
        return TE(('cast', INT, 'b2i', te.e), INT, shrink=True)
    if te.t == STRING:
        return TE(('cast', target, 'str2arr', te.e), target)
    if te.t == INT and target == BYTE:
        return TE(('cast', BYTE, 'i2b', te.e), BYTE)
    raise AssertionError


def cast(te, target):
    """Explicit `is` cast."""
    if te.lit_elems is not None:
        if not is_arr(target):
            if target == BOOL:
                if te.t[1] == EMPTY:
                    return TE(('lit', BOOL, 0), BOOL)
                # the elements are still evaluated (they may have effects); only the length decides
                return TE(('cast', BOOL, 'len2bool', coerce(te, te.t).e), BOOL)
            raise Reject(f'array literal is not {ptype(target)}')
        elems = [cast(x, target[1]) for x in te.lit_elems]
        for x in elems:
            if x.lit_elems is not None:
                raise Reject('nested array')
        return TE(None, target, lit_elems=elems, locked=True)
    if te.t == target:
        if te.t == INT and te.shrink:
            return TE(te.e, te.t, shrink=None)       # `5 is int`: still a literal?  README is silent
        return te
    s, t = te.t, target
    if s == EMPTY:
        raise Reject('empty value')
    if (s, t) == (INT, BYTE):
        return TE(('cast', BYTE, 'i2b', te.e), BYTE)
    if (s, t) == (BYTE, INT):
        return TE(('cast', INT, 'b2i', te.e), INT, shrink=None if te.e[0] == 'lit' else False)
    if t == BOOL:
        if s == STRING or is_arr(s):
            return TE(('cast', BOOL, 'len2bool', te.e), BOOL)
        if s in (INT, BYTE):
            return TE(('cast', BOOL, 'int2bool', te.e), BOOL)
    if s == BOOL and t in (INT, BYTE):
        # a bool is 0/1; doc leaves literal-likeness of the result open
        return TE(('cast', t, 'bool2int', te.e), t, shrink=None if te.e[0] == 'lit' else False)
    if s == STRING and is_arr(t) and t[1] == BYTE:
        return TE(('cast', arr(BYTE, True), 'str2arr', te.e), arr(BYTE, True))
    if is_arr(s) and is_arr(t) and s[1] == t[1]:
        if not s[2] and t[2]:
            raise Unspecified('explicit cast of a mutable array to its const type')
        raise Reject('cannot cast const array to mutable')
    raise Reject(f'{ptype(s)} is not {ptype(t)}')


def _bytelike(te):
    """Is the operand coercible to byte?  True / False / None (unspecified)."""
    try:
        return coercible(te, BYTE)
    except Unspecified:
        return None


class Scope:
    def __init__(self, parent=None, is_global=False):
        self.vars = {}
        self.parent = parent
        self.is_global = is_global

    def lookup(self, name):
        s = self
        while s is not None:
            if name in s.vars:
                return s.vars[name], s
            s = s.parent
        return None, None


class Typer:
    def __init__(self, prog, strict_unspecified=True):
        self.prog = prog
        self.funcs = {}          # name -> list of (params, ret, key)
        self.ret = None
        self.strict = strict_unspecified

    # ---- expressions -------------------------------------------------------
    def expr(self, e, sc):
        k = e[0]
        if k == 'int':
            return TE(('lit', INT, e[1]), INT, shrink=True)
        if k == 'chr':
            return TE(('lit', BYTE, e[1]), BYTE)
        if k == 'bool':
            return TE(('lit', BOOL, int(e[1])), BOOL)
        if k == 'str':
            return TE(('lit', STRING, e[1]), STRING)
        if k == 'var':
            v, where = sc.lookup(e[1])
            if v is None:
                raise Reject(f'{e[1]} is undeclared')
            t, const = v
            return TE(('var', t, e[1]), t, isvar=True, const=const or is_arr(t))
        if k == 'idx':
            src = self.expr(e[1], sc)
            if src.lit_elems is not None:
                if not src.lit_elems:
                    raise Unspecified('index of empty array literal')
                src = coerce(src, src.t)
            if not (is_arr(src.t) or src.t == STRING):
                raise Reject('index of non-array')
            i = coerce(self.expr(e[2], sc), INT)
            t = BYTE if src.t == STRING else src.t[1]
            te = TE(('idx', t, src.e, i.e), t)
            te.isvar = True
            te.const = True if src.t == STRING else src.t[2]
            return te
        if k == 'len':
            src = self.expr(e[1], sc)
            if src.lit_elems is not None:
                if src.t[1] == EMPTY:
                    raise Unspecified('length of empty array literal')
                src = coerce(src, src.t)
            if not (is_arr(src.t) or src.t == STRING):
                raise Reject('length of non-array')
            return TE(('len', INT, src.e), INT)
        if k == 'un':
            op = e[1]
            a = self.expr(e[2], sc)
            if op == 'not':
                return TE(('un', BOOL, 'not', cast(a, BOOL).e), BOOL)
            sh = _bytelike(a)
            ai = coerce(a, INT)
            return TE(('un', INT, op, ai.e), INT, shrink=sh)
        if k == 'bin':
            op = e[1]
            a = self.expr(e[2], sc)
            b = self.expr(e[3], sc)
            if op in ('and', 'or'):
                return TE(('bin', BOOL, op, cast(a, BOOL).e, cast(b, BOOL).e), BOOL)
            if op in ('==', '!='):
                if a.t == BOOL and b.t == BOOL:
                    return TE(('bin', BOOL, op, a.e, b.e), BOOL)
                return TE(('bin', BOOL, op, coerce(a, INT).e, coerce(b, INT).e), BOOL)
            if op in ('<', '<=', '>', '>='):
                return TE(('bin', BOOL, op, coerce(a, INT).e, coerce(b, INT).e), BOOL)
            sa, sb = _bytelike(a), _bytelike(b)
            sh = False if (sa is False or sb is False) else (None if (sa is None or sb is None) else True)
            return TE(('bin', INT, op, coerce(a, INT).e, coerce(b, INT).e), INT, shrink=sh)
        if k == 'is':
            a = self.expr(e[1], sc)
            t = e[2]
            if is_arr(t):
                t = arr(t[1], True)
            return cast(a, t)
        if k == 'arr':
            elems = [self.expr(x, sc) for x in e[1]]
            if not elems:
                return TE(None, arr(EMPTY, True), lit_elems=[])
            for x in elems:
                if is_arr(x.t):
                    raise Reject('nested arrays are unsupported')
                if x.t == EMPTY:
                    raise Reject('empty value in array literal')
            seen = []
            for x in elems:
                if x.t not in seen:
                    seen.append(x.t)
            for t in seen:
                if all(coercible(x, t) for x in elems):
                    return TE(None, arr(t, True), lit_elems=elems)
            raise Reject('array type is unresolvable')
        if k == 'call':
            return self.call(e, sc)
        if k == 'spec':
            a = self.expr(e[1], sc)
            if a.t not in (BYTE, INT, BOOL):
                raise Reject('can only speculate on byte, int or bool')
            b = coerce(self.expr(e[2], sc), a.t)
            return TE(('spec', a.t, a.e, b.e), a.t)
        raise ValueError(f'unknown expression {e!r}')

    def call(self, e, sc):
        name = e[1]
        args = [self.expr(a, sc) for a in e[2]]
        cands = self.funcs.get(name, [])
        sig = tuple(a.t for a in args)
        chosen = None
        for params, ret, key in cands:
            if params == sig:
                chosen = (params, ret, key)
                break
        if chosen is None:
            for params, ret, key in cands:
                if len(params) == len(args) and all(coercible(a, p) for a, p in zip(args, params)):
                    chosen = (params, ret, key)
                    break
        if chosen is None:
            raise Reject(f'no matching function for {name}({", ".join(ptype(t) for t in sig)})')
        params, ret, key = chosen
        eargs = tuple(coerce(a, p).e for a, p in zip(args, params))
        return TE(('call', ret, key, eargs), ret)

    # ---- statements ----------------------------------------------------------
    def declare(self, sc, name, t, const):
        prev, where = sc.lookup(name)
        if prev is not None:
            if sc.is_global or not where.is_global:
                raise Reject(f'redeclaration of {name}')
        sc.vars[name] = (t, const)

    def stmt(self, s, sc, loop):
        k = s[0]
        if k == 'decl':
            _, const, t, name, e = s
            prev, where = sc.lookup(name)
            if prev is not None and (sc.is_global or not where.is_global):
                raise Reject(f'redeclaration of {name}')
            te = self.expr(e, sc)
            if is_arr(t) and is_arr(te.t) and te.lit_elems is None and t[2] and not te.t[2] and t[1] == te.t[1]:
                raise Unspecified('const array declared from a mutable array reference')
            init = coerce(te, t)
            sc.vars[name] = (t, const)
            return ('decl', t, name, init.e)
        if k == 'adecl':
            _, el, name, ln = s
            prev, where = sc.lookup(name)
            if prev is not None and (sc.is_global or not where.is_global):
                raise Reject(f'redeclaration of {name}')
            n = coerce(self.expr(ln, sc), INT)
            sc.vars[name] = (arr(el, False), True)
            return ('adecl', el, name, n.e)
        if k in ('set', 'iset'):
            lv = s[1] if k == 'set' else s[2]
            rhs = s[2] if k == 'set' else s[3]
            if lv[0] not in ('var', 'idx'):
                raise Reject('not assignable')
            if k == 'iset':
                rhs_src = ('bin', s[1], lv, rhs)
            else:
                rhs_src = rhs
            tl = self.expr(lv, sc)
            if tl.const:
                raise Reject('cannot assign to const')
            val = coerce(self.expr(rhs_src, sc), tl.t)
            if k == 'set':
                return ('set', tl.e, val.e)
            # keep the operator form: target read once, before the right operand
            r = self.expr(rhs, sc)
            ri = coerce(r, INT)
            return ('iset', s[1], tl.e, ri.e, tl.t)
        if k == 'expr':
            te = self.expr(s[1], sc)
            if te.lit_elems is not None:
                if te.t[1] == EMPTY:
                    return ('expr', ('lit', INT, 0))
                te = coerce(te, te.t)
            return ('expr', te.e)
        if k == 'if':
            c = cast(self.expr(s[1], sc), BOOL)
            th = self.body(s[2], sc, loop)
            el = self.body(s[3], sc, loop) if s[3] is not None else ('block', ())
            return ('if', c.e, th, el)
        if k == 'while':
            body = self.body(s[2], sc, True)
            c = cast(self.expr(s[1], sc), BOOL)
            return ('loop', c.e, body, ('block', ()))
        if k == 'for':
            inner = Scope(sc)
            out = []
            if s[1] is not None:
                out.append(self.stmt(s[1], inner, loop))
            body = self.body(s[4], inner, True)
            c = cast(self.expr(s[2], inner), BOOL).e if s[2] is not None else ('lit', BOOL, 1)
            cont = ('block', (self.stmt(s[3], Scope(inner), loop),)) if s[3] is not None else ('block', ())
            out.append(('loop', c, body, cont))
            return ('block', tuple(out))
        if k == 'break' or k == 'continue':
            if not loop:
                raise Reject(f'{k} outside of loop', 'context')
            return s
        if k == 'ret':
            if s[1] is not None:
                if self.ret == EMPTY:
                    raise Reject('unexpected return value')
                return ('ret', coerce(self.expr(s[1], sc), self.ret).e)
            if self.ret != EMPTY:
                raise Reject('missing return value')
            return ('ret', None)
        if k == 'block':
            return self.body(s, sc, loop)
        if k == 'try':
            return ('try', self.body(s[1], sc, loop), s[2], self.body(s[3], sc, loop))
        if k == 'preempt':
            return ('preempt', self.body(s[1], sc, loop))
        raise ValueError(f'unknown statement {s!r}')

    def body(self, b, sc, loop):
        if b[0] == 'block':
            inner = Scope(sc)
            return ('block', tuple(self.stmt(x, inner, loop) for x in b[1]))
        return ('block', (self.stmt(b, Scope(sc), loop),))

    # ---- program ---------------------------------------------------------------
    def program(self):
        prog = self.prog
        for name, params, ret in BUILTINS:
            self.funcs.setdefault(name, []).append((params, ret, ('builtin', name, params)))
        for i, (ret, name, params, body) in enumerate(prog['funcs']):
            ptypes = tuple(prm[0] for prm in params)
            for p2, _, _ in self.funcs.get(name, []):
                if p2 == ptypes:
                    raise Reject(f'redefinition of {name}')
            self.funcs.setdefault(name, []).append((ptypes, ret, ('user', i)))
        gsc = Scope(None, is_global=True)
        globs = []
        for g in prog.get('globals', ()):
            globs.append(self.stmt(g, gsc, False))
        funcs = []
        for ret, name, params, body in prog['funcs']:
            fsc = Scope(gsc)
            for prm in params:
                t, pn = prm[0], prm[1]
                prev, where = fsc.lookup(pn)
                if prev is not None and not where.is_global:
                    raise Reject(f'duplicate parameter {pn}')
                fsc.vars[pn] = (t, len(prm) > 2 and bool(prm[2]))
            self.ret = ret
            b = self.fbody(body, fsc)
            if ret != EMPTY and can_complete(b):
                raise Reject(f'missing return statement in {name}')
            funcs.append((ret, name, tuple(prm[1] for prm in params), b, has_preempt(body)))
        return {'globals': tuple(globs), 'funcs': tuple(funcs), 'src': prog}

    def fbody(self, body, fsc):
        inner = Scope(fsc)
        return ('block', tuple(self.stmt(x, inner, False) for x in body[1]))


NORETURN = {'!is_defeat', 'all_is_win', 'all_is_broken'}


def can_complete(s):
    """May the (elaborated) statement complete normally?  Conservative structural rule: return, break, continue,
    !is_defeat(), all_is_win(), all_is_broken() never complete; a sequence completes if all its members do; if/else if
    either branch does; a loop unless its condition is the literal true and its body contains no break of that loop;
    a try if its body or its handler does; a preempt block always (it may be skipped)."""
    k = s[0]
    if k in ('ret', 'break', 'continue'):
        return False
    if k == 'expr':
        e = s[1]
        if e[0] == 'call' and e[2][0] == 'builtin' and e[2][1] in NORETURN and not e[3]:
            return False
        return True
    if k == 'block':
        for x in s[1]:
            if not can_complete(x):
                return False
        return True
    if k == 'if':
        return can_complete(s[2]) or can_complete(s[3])
    if k == 'loop':
        cond = s[1]
        if cond[0] == 'lit' and cond[2]:
            return _has_break(s[2])
        if _is_constant(cond):
            raise Unspecified('loop with a constant, non-literal condition')
        return True
    if k == 'try':
        return can_complete(s[1]) or can_complete(s[3])
    if k == 'preempt':
        return True
    return True


def _is_constant(e):
    if e[0] == 'lit':
        return True
    if e[0] in ('un', 'cast'):
        return _is_constant(e[3])
    if e[0] == 'bin':
        return _is_constant(e[3]) and _is_constant(e[4])
    return False


def _has_break(s):
    """Does the statement contain a break that leaves the enclosing loop (and is reachable structurally)?"""
    k = s[0]
    if k == 'break':
        return True
    if k == 'block':
        for x in s[1]:
            if _has_break(x):
                return True
            if not can_complete(x):
                return False
        return False
    if k == 'if':
        return _has_break(s[2]) or _has_break(s[3])
    if k == 'try':
        return _has_break(s[1]) or _has_break(s[3])
    if k == 'preempt':
        return _has_break(s[1])
    return False


def has_preempt(s):
    if s is None:
        return False
    k = s[0]
    if k == 'preempt':
        return True
    if k == 'block':
        return any(has_preempt(x) for x in s[1])
    if k == 'if':
        return has_preempt(s[2]) or has_preempt(s[3])
    if k == 'while':
        return has_preempt(s[2])
    if k == 'for':
        return has_preempt(s[4])
    if k == 'try':
        return has_preempt(s[1]) or has_preempt(s[3])
    return False


def elaborate(prog):
    return Typer(prog).program()
