"""Reference interpreter for elaborated HiD-core (DESIGN.md sections 4.2, 4.3).

Sequential semantics are a plain tree walk.  Time travel is "angelic choice with
preference, failure = defeat": every choice point consults a decision prefix
(default: primary); real defeat raises Fail; the driver flips the newest primary
decision to its alternative and re-runs the whole program from the start
(stateless backtracking).
"""
from .core import INT, BYTE, BOOL, STRING, EMPTY, is_arr


class Fail(Exception):
    """Real defeat (or a failed speculation): undo back to the newest choice point."""


class VDefeat(Exception):
    """Virtual defeat inside a try/stop body."""


class Ret(Exception):
    def __init__(self, v):
        self.v = v


class Brk(Exception):
    pass


class Cont(Exception):
    pass


class Term(Exception):
    """Terminal state reached: flags to emit, then the sleep loop."""

    def __init__(self, flags):
        self.flags = flags


class Forever(Exception):
    """A state cycle was found: the program runs forever with this periodic event suffix."""

    def __init__(self, ev_index):
        self.ev_index = ev_index


# largest stack (in words) any check configures: 4 * hid.GEN_STACK
MAX_HARNESS_STACK = 1024


class Budget(Exception):
    pass


class ModelError(Exception):
    """The generated program steps outside what the model defines (generator bug)."""


class Arr:
    __slots__ = ('el', 'data')

    def __init__(self, el, data):
        self.el = el
        self.data = data


LOOP_DETECT_AFTER = 40


class Interp:
    def __init__(self, eprog, argv, W, dec, checked=True, max_steps=400000, uninit=None):
        self.p = eprog
        self.W = W
        self.bits = 8 * W
        self.mask = (1 << self.bits) - 1
        self.sign = 1 << (self.bits - 1)
        self.dec = dec
        self.ci = 0
        self.ev = []
        self.virt = False
        self.checked = checked
        self.steps = 0
        self.max_steps = max_steps
        self.g = {}
        self.frames = []
        self.argv = argv
        self.uninit = uninit
        self.funcs = eprog['funcs']
        self.overflowed = False

    # ---- helpers
    def wrap(self, v):
        w = v & self.mask
        if w & self.sign:
            w -= 1 << self.bits
        if w != v:
            self.overflowed = True
        return w

    def choose(self):
        i = self.ci
        self.ci += 1
        if i < len(self.dec):
            return self.dec[i]
        self.dec.append(True)
        return True

    def tick(self):
        self.steps += 1
        if self.steps > self.max_steps:
            raise Budget()

    def fault(self, kind):
        raise Term([kind, 'error'])

    def lookup(self, name):
        for sc in reversed(self.frames[-1]):
            if name in sc:
                return sc
        if name in self.g:
            return self.g
        raise ModelError(f'unbound {name}')

    def snapshot(self):
        ids = {}
        arrs = []

        def enc(v):
            if isinstance(v, Arr):
                i = ids.get(id(v))
                if i is None:
                    i = ids[id(v)] = len(arrs)
                    arrs.append(tuple(v.data))
                return ('A', i)
            return v
        g = tuple(sorted((k, enc(v)) for k, v in self.g.items()))
        fr = tuple(tuple(tuple(sorted((k, enc(v)) for k, v in sc.items())) for sc in frame) for frame in self.frames)
        return (g, fr, tuple(arrs), self.virt)

    # ---- expressions
    def ee(self, e):
        self.tick()
        k = e[0]
        if k == 'lit':
            t = e[1]
            if t == INT:
                return self.wrap(e[2])
            if t == BYTE:
                return e[2] & 0xFF
            return e[2]
        if k == 'var':
            v = self.lookup(e[2])[e[2]]
            if v is None:
                raise ModelError(f'read of uninitialised {e[2]}')
            return v
        if k == 'bin':
            op = e[2]
            if op == 'and':
                return 1 if (self.ee(e[3]) and self.ee(e[4])) else 0
            if op == 'or':
                return 1 if (self.ee(e[3]) or self.ee(e[4])) else 0
            a = self.ee(e[3])
            b = self.ee(e[4])
            if op == '+':
                return self.wrap(a + b)
            if op == '-':
                return self.wrap(a - b)
            if op == '*':
                return self.wrap(a * b)
            if op == '/' or op == '%':
                if b == 0:
                    if self.checked:
                        self.fault('division_by_zero')
                    raise ModelError('division by zero in unchecked build')
                return self.wrap(a // b if op == '/' else a % b)
            if op == '==':
                return int(a == b)
            if op == '!=':
                return int(a != b)
            if op == '<':
                return int(a < b)
            if op == '<=':
                return int(a <= b)
            if op == '>':
                return int(a > b)
            if op == '>=':
                return int(a >= b)
            raise ModelError(op)
        if k == 'un':
            op = e[2]
            a = self.ee(e[3])
            if op == 'not':
                return 0 if a else 1
            if op == '-':
                return self.wrap(-a)
            return a
        if k == 'cast':
            kind = e[2]
            a = self.ee(e[3])
            if kind == 'b2i':
                return a
            if kind == 'i2b':
                return a & 0xFF
            if kind == 'int2bool':
                return int(a != 0)
            if kind == 'len2bool':
                return int(len(a.data if isinstance(a, Arr) else a) != 0)
            if kind == 'bool2int':
                return a
            if kind == 'str2arr':
                return Arr(BYTE, list(a))
            raise ModelError(kind)
        if k == 'idx':
            src = self.ee(e[2])
            i = self.ee(e[3])
            data = src.data if isinstance(src, Arr) else src
            if not 0 <= i < len(data):
                if self.checked:
                    self.fault('out_of_bounds')
                raise ModelError('index out of bounds in unchecked build')
            v = data[i]
            if v is None:
                if self.uninit is not None:
                    return self.uninit
                raise ModelError('read of uninitialised array element')
            return v
        if k == 'len':
            src = self.ee(e[2])
            return len(src.data if isinstance(src, Arr) else src)
        if k == 'arr':
            el = e[1][1]
            vals = [self.ee(x) for x in e[2]]
            return Arr(el, vals)
        if k == 'call':
            args = [self.ee(a) for a in e[3]]
            return self.call(e[2], args)
        if k == 'spec':
            vb = self.ee(e[3])
            if self.choose():
                va = self.ee(e[2])
                if va == vb:
                    raise Fail()
                return va
            return vb
        raise ModelError(f'unknown expression {e!r}')

    def out(self, bs):
        ev = self.ev
        for b in bs:
            ev.append(('y', b))

    def call(self, key, args):
        if key[0] == 'builtin':
            name = key[1]
            params = key[2]
            if name == 'write' or name == 'writeln':
                if params:
                    t = params[0]
                    v = args[0]
                    if t == INT:
                        self.out(str(v).encode())
                    elif t == BYTE:
                        self.out(bytes([v]))
                    elif t == BOOL:
                        self.out(b'true' if v else b'false')
                    elif t == STRING:
                        self.out(v)
                    else:
                        self.out(bytes(v.data))
                if name == 'writeln':
                    self.out(b'\n')
                return None
            if name == '!is_defeat':
                self.defeat()
            if name == '!truth_is_defeat':
                if args[0]:
                    self.defeat()
                return None
            if name == 'all_is_win':
                raise Term(['win'])
            if name == 'all_is_broken':
                raise Term(['error'])
            if name == 'sleep':
                self.ev.append(('s', args[0] & self.mask))
                return None
            if name == 'debug' or name == 'progress':
                self.ev.append(('f', name))
                return None
            raise ModelError(name)
        ret, name, pnames, body, preemptive = self.funcs[key[1]]
        if len(self.frames) > 200:
            raise Budget()
        self.frames.append([dict(zip(pnames, args))])
        val = None
        try:
            try:
                self.block(body)
            except Ret as r:
                val = r.v
            else:
                if ret != EMPTY:
                    raise ModelError(f'{name} completed without returning a value')
        finally:
            self.frames.pop()
        if preemptive and self.checked and name.startswith('!'):
            if not self.choose():
                self.fault('nonlocal_preempt')
        return val

    def defeat(self):
        if self.virt:
            raise VDefeat()
        raise Fail()

    # ---- statements
    def block(self, b):
        fr = self.frames[-1]
        fr.append({})
        try:
            for s in b[1]:
                self.stmt(s)
        finally:
            fr.pop()

    def assign_target(self, lv):
        """Evaluate an lvalue to (container, key) performing the bounds check."""
        if lv[0] == 'var':
            return self.lookup(lv[2]), lv[2]
        src = self.ee(lv[2])
        i = self.ee(lv[3])
        if not 0 <= i < len(src.data):
            if self.checked:
                self.fault('out_of_bounds')
            raise ModelError('index out of bounds in unchecked build')
        return src.data, i

    def stmt(self, s):
        self.tick()
        k = s[0]
        if k == 'expr':
            self.ee(s[1])
        elif k == 'decl':
            v = self.ee(s[3])
            self.frames[-1][-1][s[2]] = v
        elif k == 'adecl':
            n = self.ee(s[3])
            el = s[1]
            maxlen = (self.sign - 1) if el in (BYTE, BOOL) else (self.sign - 1) // self.W
            if n < 0 or n > maxlen:
                if self.checked:
                    self.fault('stack_overflow')
                raise ModelError('bad array length in unchecked build')
            if n > 4096:
                words = -(-(-(-n // 8) if el == BOOL else n if el == BYTE else n * self.W) // self.W)
                if self.checked and words > MAX_HARNESS_STACK:
                    # no stack the harness ever configures holds this array: a checked build must report it
                    self.fault('stack_overflow')
                raise Budget()      # too large to model: the run is counted as inconclusive
            self.frames[-1][-1][s[2]] = Arr(el, [None] * n)
        elif k == 'set':
            lv = s[1]
            if lv[0] == 'var':
                v = self.ee(s[2])
                self.lookup(lv[2])[lv[2]] = v
            else:
                c, key = self.assign_target(lv)
                c[key] = self.ee(s[2])
        elif k == 'iset':
            op, lv, rhs, t = s[1], s[2], s[3], s[4]
            c, key = self.assign_target(lv)
            old = c[key]
            if old is None:
                if self.uninit is None:
                    raise ModelError('read of uninitialised element')
                old = self.uninit
            b = self.ee(rhs)
            if op == '+':
                v = old + b
            elif op == '-':
                v = old - b
            elif op == '*':
                v = old * b
            else:
                if b == 0:
                    if self.checked:
                        self.fault('division_by_zero')
                    raise ModelError('division by zero in unchecked build')
                v = old // b if op == '/' else old % b
            c[key] = (v & 0xFF) if t == BYTE else self.wrap(v)
        elif k == 'if':
            if self.ee(s[1]):
                self.block(s[2])
            else:
                self.block(s[3])
        elif k == 'loop':
            cond, body, cont = s[1], s[2], s[3]
            it = 0
            tort = None
            tort_ev = 0
            power = 1
            lam = 0
            try:
                while self.ee(cond):
                    try:
                        self.block(body)
                    except Cont:
                        pass
                    self.block(cont)
                    it += 1
                    if it >= LOOP_DETECT_AFTER:
                        snap = self.snapshot()
                        if tort is not None and snap == tort:
                            raise Forever(tort_ev)
                        lam += 1
                        if tort is None or lam == power:
                            tort = snap
                            tort_ev = len(self.ev)
                            power *= 2
                            lam = 0
            except Brk:
                pass
        elif k == 'break':
            raise Brk()
        elif k == 'continue':
            raise Cont()
        elif k == 'ret':
            raise Ret(self.ee(s[1]) if s[1] is not None else None)
        elif k == 'block':
            self.block(s)
        elif k == 'preempt':
            if self.virt or not self.choose():
                self.block(s[1])
        elif k == 'try':
            body, kind, handler = s[1], s[2], s[3]
            if kind == 'undo':
                if self.choose():
                    self.block(body)
                else:
                    self.block(handler)
            else:
                if self.choose():
                    self.block(body)
                else:
                    nfr = len(self.frames)
                    depth = len(self.frames[-1])
                    self.virt = True
                    try:
                        self.block(body)
                    except VDefeat:
                        # frames and scopes were unwound by the exception
                        assert len(self.frames) == nfr and len(self.frames[-1]) == depth
                        self.virt = False
                        self.block(handler)
                    finally:
                        self.virt = False
        else:
            raise ModelError(f'unknown statement {s!r}')

    # ---- program
    def bind_entry(self, params_src):
        """Bind argv to the parameters of @is_you following the %argv conventions."""
        argv = list(self.argv)
        params_src = [(p[0], p[1]) for p in params_src]
        arr_i = [i for i, (t, _) in enumerate(params_src) if is_arr(t)]
        vals = []
        n = len(params_src)
        if len(arr_i) > 1:
            raise ModelError('more than one array entry parameter')
        if arr_i:
            ai = arr_i[0]
            nafter = n - ai - 1
            if len(argv) < n - 1:
                raise ModelError('too few arguments')
            groups = [[a] for a in argv[:ai]] + [argv[ai:len(argv) - nafter]] + [[a] for a in argv[len(argv) - nafter:]]
        else:
            if len(argv) != n:
                raise ModelError('wrong number of arguments')
            groups = [[a] for a in argv]

        def conv(t, a):
            if t == INT:
                return self.wrap(int(a, 10))
            if t == BYTE:
                return int(a, 10) & 0xFF
            if t == STRING:
                return a.encode('utf-8')
            raise ModelError(f'bad entry parameter type {t}')
        for (t, _), grp in zip(params_src, groups):
            if is_arr(t):
                vals.append(Arr(t[1], [conv(t[1], a) for a in grp]))
            else:
                vals.append(conv(t, grp[0]))
        return vals

    def run_main(self):
        self.frames = [[{}]]
        for gs in self.p['globals']:
            # globals live in self.g; evaluate initialisers in order
            self.frames[-1][-1] = self.g
            self.stmt(gs)
        self.frames = []
        src = self.p['src']
        idx = None
        for i, f in enumerate(src['funcs']):
            if f[1] == '@is_you':
                idx = i
        if idx is None:
            raise ModelError('no @is_you')
        args = self.bind_entry(src['funcs'][idx][2])
        self.call(('user', idx), args)


def run(eprog, argv=(), W=2, checked=True, max_steps=400000, max_runs=4000, uninit=None, trace_all=None):
    """Return (status, trace, info).  status: 'ok' (trace is the canonical committed trace),
    'halt' (committed defeat: forbidden by C03), 'budget' (inconclusive)."""
    from ..svm import canon_trace
    dec = []
    runs = 0
    total_steps = 0
    mask = (1 << (8 * W)) - 1
    tnt = (('s', 0x7f7f & mask),)
    while True:
        runs += 1
        if runs > max_runs:
            return 'budget', None, {'runs': runs, 'steps': total_steps}
        it = Interp(eprog, [str(a) for a in argv], W, list(dec), checked, max_steps, uninit)
        try:
            try:
                it.run_main()
                pre, period = it.ev + [('f', 'win')], tnt
            except Term as t:
                pre, period = it.ev + [('f', f) for f in t.flags], tnt
            except Forever as f:
                pre, period = it.ev[:f.ev_index], tuple(it.ev[f.ev_index:])
            total_steps += it.steps
            if trace_all is not None:
                trace_all.append(list(it.ev))
            return 'ok', canon_trace(pre, period), {'runs': runs, 'steps': total_steps, 'decisions': it.dec[:it.ci],
                                                    'overflowed': it.overflowed}
        except Fail:
            total_steps += it.steps
            if trace_all is not None:
                trace_all.append(list(it.ev))
            d = it.dec[:it.ci]
            while d and d[-1] is False:
                d.pop()
            if not d:
                return 'halt', canon_trace(it.ev, ()), {'runs': runs, 'steps': total_steps}
            d[-1] = False
            dec = d
        except VDefeat:
            raise ModelError('virtual defeat escaped its try')
        except Budget:
            total_steps += it.steps
            return 'budget', None, {'runs': runs, 'steps': total_steps}
        except RecursionError:
            return 'budget', None, {'runs': runs, 'steps': total_steps}
