"""Convenience entry points binding the reference model together."""
from . import types as rtypes
from . import interp
from .core import pprog


def reference(prog, argv=(), W=2, checked=True, **kw):
    """Elaborate + run.  Raises rtypes.Reject/Unspecified for ill-typed programs."""
    ep = rtypes.elaborate(prog)
    return interp.run(ep, argv, W, checked, **kw)
