"""HiD-core: the verifier's own AST for Halt is Defeat programs, and a pretty-printer.

Everything is a plain tuple so that programs are hashable, comparable and JSON-able.

Types   : 'int' | 'byte' | 'bool' | 'string' | 'empty' | ('arr', el, const)
Exprs   : ('int', n) ('chr', b) ('bool', v) ('str', bytes) ('var', name) ('idx', e, i) ('len', e)
          ('call', name, (args...)) ('un', op, e) ('bin', op, a, b) ('is', e, T) ('arr', (elems...))
          ('spec', a, b)
Stmts   : ('decl', const, T, name, e) ('adecl', el, name, len) ('set', lv, e) ('iset', op, lv, e)
          ('expr', e) ('if', c, then, else|None) ('while', c, body) ('for', init|None, cond|None, cont|None, body)
          ('break',) ('continue',) ('ret', e|None) ('block', (stmts...)) ('try', body, 'undo'|'stop', handler)
          ('preempt', body) ('raw', text)
Program : {'globals': (decl|adecl ...), 'funcs': ((ret, name, ((T, pname), ...), body_block), ...)}
"""

INT, BYTE, BOOL, STRING, EMPTY = 'int', 'byte', 'bool', 'string', 'empty'
SCALARS = (INT, BYTE, BOOL, STRING)


def arr(el, const=False):
    return ('arr', el, const)


def is_arr(t):
    return isinstance(t, tuple) and t[0] == 'arr'


def ptype(t):
    if is_arr(t):
        return ('const ' if t[2] else '') + t[1] + '[]'
    return t


def block(*stmts):
    return ('block', tuple(stmts))


def call(name, *args):
    return ('call', name, tuple(args))


def ecall(name, *args):
    return ('expr', ('call', name, tuple(args)))


def lit(n):
    return ('int', n)


def var(n):
    return ('var', n)


def binop(op, a, b):
    return ('bin', op, a, b)


# ---------------------------------------------------------------------------
# pretty printer
# ---------------------------------------------------------------------------

_PREC = {'or': 2, 'and': 3, '==': 4, '!=': 4, '<': 4, '<=': 4, '>': 4, '>=': 4,
         '+': 5, '-': 5, '*': 6, '/': 6, '%': 6}
P_SPEC, P_IS, P_UN, P_POST = 1, 7, 8, 9


def pbytes_char(b):
    if 0x20 <= b <= 0x7e and b not in (0x27, 0x5c):
        return "'" + chr(b) + "'"
    return "'\\x%02x'" % b


def pbytes_str(bs):
    out = ['"']
    for b in bs:
        if 0x20 <= b <= 0x7e and b not in (0x22, 0x5c):
            out.append(chr(b))
        elif b == 10:
            out.append('\\n')
        else:
            out.append('\\x%02x' % b)
    out.append('"')
    return ''.join(out)


def pexpr(e, full=False):
    return _pe(e, 0, full)


def _paren(s, need):
    return '(' + s + ')' if need else s


def _pe(e, ctx, full):
    """ctx = minimal precedence the printed expression must have to stand unparenthesised."""
    k = e[0]
    if k == 'int':
        if e[1] < 0:
            return _paren('-' + str(-e[1]), ctx > P_UN or full and ctx > 0)
        return str(e[1])
    if k == 'chr':
        return pbytes_char(e[1])
    if k == 'bool':
        return 'true' if e[1] else 'false'
    if k == 'str':
        return pbytes_str(e[1])
    if k == 'var':
        return e[1]
    if k == 'idx':
        return _pe(e[1], P_POST, full) + '[' + _pe(e[2], 0, full) + ']'
    if k == 'len':
        return _pe(e[1], P_POST, full) + '.length'
    if k == 'call':
        return e[1] + '(' + ', '.join(_pe(a, 0, full) for a in e[2]) + ')'
    if k == 'arr':
        return '[' + ', '.join(_pe(a, 0, full) for a in e[1]) + ']'
    if k == 'un':
        op = e[1] + (' ' if e[1] == 'not' else '')
        inner = _pe(e[2], P_UN, full)
        if e[1] in '+-' and inner[:1] in '+-':
            inner = '(' + inner + ')'
        return _paren(op + inner, ctx > P_UN or (full and ctx > 0))
    if k == 'is':
        return _paren(_pe(e[1], P_UN, full) + ' is ' + ptype(e[2]).replace('const ', ''), ctx >= P_IS or (full and ctx > 0))
    if k == 'bin':
        p = _PREC[e[1]]
        s = _pe(e[2], p, full) + ' ' + e[1] + ' ' + _pe(e[3], p + 1, full)
        return _paren(s, ctx > p or (full and ctx > 0))
    if k == 'spec':
        s = _pe(e[1], 2, full) + ' ?? ' + _pe(e[2], 2, full)
        return _paren(s, ctx > 0)
    if k == 'raw':
        return e[1]
    raise ValueError(f'unknown expression {e!r}')


def pstmt(s, ind=1, full=False):
    p = '    ' * ind
    k = s[0]
    if k == 'decl':
        _, const, t, name, e = s
        c = 'const ' if (const and not is_arr(t)) else ''
        return f'{p}{c}{ptype(t)} {name} = {pexpr(e, full)};\n'
    if k == 'adecl':
        return f'{p}{s[1]} {s[2]}[{pexpr(s[3], full)}];\n'
    if k == 'set':
        return f'{p}{pexpr(s[1], full)} = {pexpr(s[2], full)};\n'
    if k == 'iset':
        return f'{p}{pexpr(s[2], full)} {s[1]}= {pexpr(s[3], full)};\n'
    if k == 'expr':
        return f'{p}{pexpr(s[1], full)};\n'
    if k == 'if':
        out = f'{p}if ({pexpr(s[1], full)}) ' + pblock(s[2], ind, full)
        if s[3] is not None:
            out = out.rstrip('\n') + ' else ' + pblock(s[3], ind, full)
        return out
    if k == 'while':
        return f'{p}while ({pexpr(s[1], full)}) ' + pblock(s[2], ind, full)
    if k == 'for':
        init = pstmt(s[1], 0, full).strip().rstrip(';') if s[1] is not None else ''
        cond = pexpr(s[2], full) if s[2] is not None else ''
        cont = pstmt(s[3], 0, full).strip().rstrip(';') if s[3] is not None else ''
        return f'{p}for ({init}; {cond}; {cont}) ' + pblock(s[4], ind, full)
    if k == 'break':
        return f'{p}break;\n'
    if k == 'continue':
        return f'{p}continue;\n'
    if k == 'ret':
        return f'{p}return{" " + pexpr(s[1], full) if s[1] is not None else ""};\n'
    if k == 'block':
        return p + pblock(s, ind, full)
    if k == 'try':
        return f'{p}try ' + pblock(s[1], ind, full).rstrip('\n') + f' {s[2]} ' + pblock(s[3], ind, full)
    if k == 'preempt':
        return f'{p}preempt ' + pblock(s[1], ind, full)
    if k == 'raw':
        return f'{p}{s[1]}\n'
    raise ValueError(f'unknown statement {s!r}')


def pblock(b, ind, full=False):
    """Print a block-position statement (without leading indentation, with trailing newline)."""
    if b[0] == 'block':
        return '{\n' + ''.join(pstmt(x, ind + 1, full) for x in b[1]) + '    ' * ind + '}\n'
    # control block directly followed by another block statement
    return pstmt(b, ind, full).lstrip(' ')


def pprog(prog, full=False):
    out = []
    for g in prog.get('globals', ()):
        out.append(pstmt(g, 0, full))
    for ret, name, params, body in prog['funcs']:
        ps = ', '.join(('const ' if len(p) > 2 and p[2] else '') + f'{ptype(p[0])} {p[1]}' for p in params)
        out.append(f'{ret} {name}({ps}) ' + pblock(body, 0, full))
    return ''.join(out)
