"""Regenerates /verif/MANIFEST.json from the table below: python -m hv.manifest"""
import json
import os

ROOT = os.path.dirname(os.path.dirname(os.path.abspath(__file__)))
PY = '/venv/bin/python'

VM_NOTE = ('Trusted base: hv.svm (verification Sphinx assembler + exploring VM; conformance: upstream tests/test_codegen.py '
           'passes on it, golden self-test runs before every check) and the reference model hv.ref (README semantics; '
           'evaluation-order choices adopted from the implementation, DESIGN.md 4.2). Bounds as listed in evidence.coverage.bounds.')

CHECKS = {
    'C01': dict(
        level='model_checking', design='6/C01',
        technique='explicit-state exploration of all Turing-jump futures on a VM + bounded-exhaustive program/input enumeration + reference-trace conformance',
        text='Every enumerated well-typed sequential program (families E expressions x use positions, S statement sequences, F function '
             'protocols incl. explicit re-entry of @is_you, A entry binding, O the same functions called -- hence generated -- in every order, N one name bound as a global of every kind and shadowed by every kind of binder) is compiled by hidc from the working tree and run on the exploring VM at several word '
             'sizes; the committed event trace must equal the reference interpreter trace and no monitor may fire on any explored '
             '(including speculative) state.'),
    'C02': dict(
        level='model_checking', design='6/C02',
        technique='explicit-state exploration of all Turing-jump futures on a VM + bounded-exhaustive enumeration of try bodies, try histories and ?? uses + reference interpreter that resolves the same choice points by backtracking',
        text='Every enumerated time-travel program (T: single try with all bodies of <=2 atoms incl. preempt/loops/defeat-function calls '
             'x undo/stop x handler bodies; H: ordered pairs/triples of tries in line, in a loop and across calls; Q: ?? operands x use '
             'positions; P: preemptive defeat functions x continuations, checked and unchecked; loops containing preempt blocks whose bodies end in every way; R: returns from inside tries; O: you-functions of every kind '
             'generated in every order) is run with every future of every '
             'Turing jump explored; the committed trace must equal the trace of the backtracking reference interpreter.'),
    'C05': dict(
        level='model_checking', design='6/C05',
        technique='explicit-state exploration of all Turing-jump futures on a VM + exhaustive boundary grids of indices, lengths and divisors + reference-trace conformance',
        text='Each fault family (index x length x element type x storage x access; division/modulo operands over a 7x7 boundary grid in 13 '
             'syntactic positions; array lengths incl. negative, oversize and cannot-fit, as run-time values and as compile-time constants; constant '
             'indices into constant strings and tables; indices held in a place the statement itself changes (GIDX); lengths taken from the .length of a much longer narrower array (LENL); chained divisions by constants whose product wraps (DIVCH); return of preemptive defeat functions) '
             'is executed on the VM; the committed trace must equal the reference trace, which contains the fault flags exactly when '
             'the source semantics raise the fault, at the faulting operation, with nothing after them.'),
    'C09': dict(
        level='model_checking', design='6/C09',
        technique='explicit-state exploration on a VM of one operator program per type pair on an exhaustive boundary-value grid; oracle computed with Python integers and cross-checked against the reference interpreter',
        text='Every operator and cast, in value, branch and !truth_is_defeat position (try/undo, try/stop, inside a defeat function), '
             'for int/byte operand mixes on all pairs of a boundary grid per word size; family M: one run-time operand against a compile-time '
             'constant, family CHAIN: one run-time operand and two constants on both sides of every wrap, family BL: bools/bytes/ints against a literal with == and != in every position (reference-interpreter oracle); unary operators and casts on every 16-bit value (thorough).'),
    'C17': dict(
        level='model_checking', design='6/C17',
        technique='explicit-state exploration on a VM with memory-entitlement monitor; exhaustive 16-bit value range and length range; stack-size sweep down to one word',
        text='write(int) on every 16-bit value (thorough) and boundary sets at W 2,3,4,8; write(byte)/write(bool) on all values; '
             'write(string / byte arrays) for every length 0..64 from five storage classes; non-interference with live caller state '
             'at every stack size from 1 to S_min+4 words with every load/store checked against its entitlement.'),
    'C03': dict(
        level='model_checking', design='6/C03',
        technique='explicit-state exploration of all Turing-jump futures on a VM; invariant on outcomes (never a committed halt, never a trap) over bounded-exhaustive program families',
        text='Family K (every function flavour x terminal shape x nesting, 4 word sizes, checked and unchecked) plus the program families of '
             'C01/C02/C05/C08 are run with every Turing-jump future explored; the committed timeline must close a state cycle and may '
             'never be a halt with an empty choice stack nor a trap; speculative halts are counted to show the invariant is not vacuous.'),
    'C04': dict(
        level='model_checking', design='6/C04',
        technique='explicit-state exploration on a VM with a per-access memory-entitlement monitor on every explored state + exhaustive stack-size sweep (1..S_min+8 words) + reference-trace conformance with canaries',
        text='Family M (frames x arrays of every element type x callees x element calls/temporaries x try/stop) is run at every stack size '
             'from one word up (plus family LENL: dynamic arrays whose byte size wraps the word although their length is legal, at a grid of stack sizes); each load/store/jump on each explored path is classified by its base operand and checked against live '
             '(ap, fp) and live array extents; below S_min the run must be a clean stack_overflow, from S_min on it must equal the reference.'),
    'C08': dict(
        level='model_checking', design='6/C08',
        technique='explicit-state exploration on a VM with an (fp, ap) scope monitor + stack-footprint invariance over iteration counts found by exhaustive stack sweeps + reference-trace conformance',
        text='Family X (scope kind incl. tail blocks and stop handlers that leave by break/continue/return x allocation x exit route incl. break/continue/return/defeat->stop/defeat->undo, run 1,2,3,5 times) with '
             'canary arrays; S_min from a full sweep must not depend on the iteration count; (fp, ap) must be unchanged across every '
             'non-declaration statement, stable at loop heads and restored at loop exits on every explored state.'),
    'C15': dict(
        level='model_checking', design='6/C15',
        technique='metamorphic twin runs (checked vs --unchecked) on the exploring VM over the bounded-exhaustive families of C01/C02/C05/C08',
        text='Each enumerated (program, input, word size) is compiled with and without runtime checks; when the checked run raises no fault '
             'the unchecked committed trace must be identical, must not trap, and must satisfy the memory monitor.'),
    'C06': dict(
        level='exploration', design='6/C06',
        technique='bounded-exhaustive enumeration of placements (construct at the bottom of every chain of context formers up to a depth bound) checked against an independent context algebra',
        text='Every chain of <=3 (thorough: 4) statement/expression context formers in ordinary, you and defeat functions and global '
             'initialisers, with each construct at the bottom, is parsed and typechecked by hidc; acceptance must coincide with the '
             'verdict of a context algebra written from the README table, and rejections must be ParserErrors.',
        note='Trusted base: the context algebra in hv/checks/c06.py (10 statement formers, 7 expression formers, 6 adapters, 13 constructs). No code is executed.'),
    'C07': dict(
        level='exploration', design='6/C07',
        technique='bounded-exhaustive enumeration of typed atoms in every typed context against an independent reference typing judgement; overload binding decided by running the compiled program on the exploring VM',
        text='84 typed atoms in every declaration/assignment/argument/return/operand/cast/condition/index context (full 84x84 operator grid in '
             'the thorough tier; assignment targets incl. parameters of every type, their elements and loop variables), 78 scope/shape rule programs and all ordered sets of <=3 overloads; accept/reject must equal the verdict of '
             'hv.ref.types (three-valued; undocumented corners are skipped and counted), rejections must be TypeCheckErrors, and the '
             'overload that actually runs must be the one the documented rule selects.',
        note='Trusted base: hv.ref.types (typing judgement written from the README) and hv.ref.parser; VM + reference interpreter for overload binding.'),
    'C11': dict(
        level='exploration', design='6/C11',
        technique='exhaustive enumeration of expression trees up to a depth bound; print with minimal/full parentheses, parse with hidc, compare trees; independent precedence-climbing parser as second oracle',
        text='All trees of depth <=2 over all operators, all operator pairs/triples in all tree shapes, depth-3 trees over one operator per '
             'precedence level and ?? in every position are printed with minimal parentheses (README table only) and with full '
             'parentheses; hidc must parse both back to the same tree, and the independent parser must agree.',
        note='Trusted base: the printer hv.ref.core.pexpr and the independent parser hv.ref.parser. Parse-only.'),
    'C12': dict(
        level='exploration', design='6/C12',
        technique='exhaustive enumeration of texts over token, symbol, integer-literal and escape alphabets compared token-by-token (class, value, span) with an independent maximal-munch tokenizer; re-layout metamorphic check on token and instruction streams',
        text='Every token alone and every ordered token pair under 9 separators, all symbol strings and integer-alphabet strings up to a '
             'length bound, every byte/character/unicode escape, 40 character sequences that Unicode normalisation or case mapping would change, and every seed program under 6 layout policies.',
        note='Trusted base: hv.ref.lexer (written from the README token classes). Layout checks compile with hidc but execute nothing.'),
    'C10': dict(
        level='exploration', design='6/C10',
        technique='deviation-bounded exhaustive enumeration (0, 1 and 2 token edits of well-formed seeds at every position; all short token and character strings; literal and option boundary classes; a grid of CLI invocations)',
        text='Every enumerated input is pushed through lex/parse/typecheck/codegen and the strict assembler in-process, and a grid of real '
             '`python -m hidc` invocations is run in a scratch directory: only located, renderable CompilerErrors may come out, failures '
             'leave no output file and exit non-zero, successes assemble.',
        note='Trusted base: hv.svm strict assembler as the acceptance oracle for emitted assembly; hv.ref.lexer to split seeds into tokens.'),
    'C13': dict(
        level='model_checking', design='6/C13',
        technique='exhaustive byte-value enumeration of constants (every byte, byte pairs, lengths, array shapes) run on the exploring VM behind the strict assembler, compared with the reference interpreter',
        text='String/char literals with every byte value in 12 uses, ordered byte pairs, every length 0..64, 20 dangerous byte sequences at every position of a 150-byte literal and 12 characters at every position of 48-element character tables, and constant arrays of every '
             'element type, length, storage class and bool pattern are compiled, must assemble, and must print exactly the denoted bytes.'),
    'C14': dict(
        level='model_checking', design='6/C14',
        technique='metamorphic twin runs (constant form vs. variable form) on the exploring VM over exhaustively enumerated constant expressions on boundary constants; reference interpreter as arbiter',
        text='All operator/cast applications on pairs of boundary constants, nested expressions and chains are compiled with literals in place '
             '(in four presentations), with every literal moved into a run-time variable, and with only the literals at even / odd positions moved; all '
             'must print the same at W 2,3,4; partly constant expressions with effects or faults are compared with the reference interpreter; '
             'constant forms may be rejected only when the expression divides by zero.'),
    'C16': dict(
        level='model_checking', design='6/C16',
        technique='exhaustive enumeration of function bodies (statement trees up to a size bound) x all condition assignments; VM exploration with a function-boundary flow monitor and a sentinel function; reference judgement for accept/reject',
        text='Every body over return/break/continue/if/loops/try/preempt/defeat/terminal calls in plain, you and defeat functions: accept/reject '
             'must equal the reference missing-return rule; accepted bodies run on every input with the pc monitored across function '
             'boundaries on every explored path, a sentinel that must never print, trace equality with the reference; --lint must only '
             'reject programs with a statement the reference never reaches and must not change code otherwise.'),
    'C18': dict(
        level='model_checking', design='6/C18',
        technique='configuration enumeration: fresh-process compiles under 16-66 hash seeds in four different compilation orders plus one fresh process per (program, configuration), exhaustive stack-size sweeps, word-size twins on the exploring VM, lint twins',
        text='Seed programs are compiled in separate processes under each PYTHONHASHSEED (each in a different order of programs and configurations) and alone in a process of their own, and must be byte-identical; completed runs are swept '
             'over every larger stack size; runs whose 16-bit reference execution never wraps must be identical at W 2,3,4,8; --lint either '
             'rejects or leaves the assembly unchanged (also on 405 programs whose conditions the compiler can decide).'),
}

PENDING = {
}

NOT_APPLICABLE = []


def build():
    checks = []
    for pid in sorted(CHECKS):
        c = CHECKS[pid]
        checks.append({
            'property_id': pid,
            'quick_cmd': f'{PY} -m hv.check {pid} --tier quick',
            'thorough_cmd': f'{PY} -m hv.check {pid} --tier thorough',
            'evidence_file': f'/verif/evidence/{pid}.json',
            'replay_cmd_template': f'{PY} -m hv.replay {{path}}',
            'engine': 'hv',
            'level_claimed': {'category': c['level'], 'text': c['text'], 'design_ref': 'DESIGN.md section ' + c['design']},
            'level_note': c.get('note', VM_NOTE),
            'technique': c['technique'],
        })
    na = list(NOT_APPLICABLE)
    for pid, why in sorted(PENDING.items()):
        na.append({'property_id': pid, 'reason': why})
    return {
        'version': 1,
        'setup_cmd': f'cd /verif && {PY} -m compileall -q hv && {PY} -m hv.golden',
        'hooks': {
            'guard': 'HALT_IS_DEFEAT_VERIF',
            'enable': 'no hooks are needed: checks import hidc from /repo\'s working tree (editable install) and read the labels and '
                      'statement comments hidc already emits; the guard variable is reserved and unused',
            'baseline_off_cmd': 'cd /repo && /venv/bin/python -m pytest -ra -q -p no:cacheprovider --timeout=900 --continue-on-collection-errors',
            'source_commits': [],
            'add_only': True,
        },
        'engines': [{
            'name': 'hv', 'path': '/verif/hv',
            'serves_properties': sorted(CHECKS),
            'kind_free_text': 'hand-written explicit-state explorer (Sphinx VM with choice stack, undo journal, Brent cycle detection, '
                              'invariant monitors) + bounded-exhaustive enumerators + reference model with trace conformance',
        }],
        'checks': checks,
        'not_applicable': na,
        'notes': 'All checks run as `python -m hv.check <id> --tier <tier>` with cwd=/verif; exit 0 held / 1 violation (VIOLATION line) / 2 harness error. '
                 'VERIF_SEED rotates shard order only. Known findings: /verif/known_findings.json.',
    }


def main():
    with open(os.path.join(ROOT, 'MANIFEST.json'), 'w') as f:
        json.dump(build(), f, indent=1)
        f.write('\n')


if __name__ == '__main__':
    main()
