"""Verification Sphinx assembler + VM (DESIGN.md section 3).

* ``assemble(lines, argv)``: strict assembler for the dialect hidc emits.  Anything
  outside the accepted grammar raises ``AsmError`` (this strictness is itself the
  "assembler accepts it" oracle of C10/C13).
* ``run(prog, ...)``: explicit-state exploration of the machine.  Every Turing jump
  ``j X`` pushes a choice point and continues without jumping; a halt rolls the
  newest choice point back and takes the jump; a halt with no pending choice is a
  committed halt; a repeated full machine state on the current path (Brent cycle
  detection, compared at every taken jump) proves the path never halts.
* Monitors (C03/C04/C08/C16) are evaluated on every state of every explored path.

Only the standard library is used.  Deterministic: no clocks, no hashing of
order-dependent data.
"""
import re

# ----------------------------------------------------------------------------
# Assembler
# ----------------------------------------------------------------------------


class AsmError(Exception):
    pass


class AsmLimit(AsmError):
    """The program is well-formed but larger than this verification assembler is willing to materialise."""


MAX_SECTION = 1 << 24


_TOK = re.compile(rb"""[ \t]*(?:
    (?P<num>0x[0-9a-fA-F]+|[0-9]+)(?P<w>w)?(?![A-Za-z0-9_]) |
    (?P<chr>'(?:\\x[0-9a-fA-F]{2}|\\[\\'"nrt0]|[^\\'])') |
    (?P<name>[A-Za-z_.$][A-Za-z_0-9.$]*) |
    (?P<str>"(?:\\x[0-9a-fA-F]{2}|\\[\\'"nrt0]|[^"\\])*") |
    (?P<op>[-+&*()\[\]{},:])
)""", re.X)

_ESC = {b'n': 10, b'r': 13, b't': 9, b'0': 0, b'\\': 92, b"'": 39, b'"': 34}


def _unescape(body):
    out = bytearray()
    i = 0
    n = len(body)
    while i < n:
        c = body[i:i + 1]
        if c == b'\\':
            e = body[i + 1:i + 2]
            if e == b'x':
                out.append(int(body[i + 2:i + 4], 16))
                i += 4
            else:
                out.append(_ESC[e])
                i += 2
        else:
            out.append(body[i])
            i += 1
    return bytes(out)


def _strip_comment(line):
    """Return (code, comment) -- ';' starts a comment unless inside quotes."""
    i = 0
    n = len(line)
    q = None
    while i < n:
        c = line[i:i + 1]
        if q is not None:
            if c == b'\\':
                i += 2
                continue
            if c == q:
                q = None
        else:
            if c == b"'" or c == b'"':
                q = c
            elif c == b';':
                return line[:i], line[i + 1:]
        i += 1
    if q is not None:
        raise AsmError(f'unterminated quote in {line!r}')
    return line, None


def _tokenize(line):
    pos = 0
    toks = []
    line = line.rstrip()
    n = len(line)
    while pos < n:
        m = _TOK.match(line, pos)
        if m is None or m.end() == pos:
            raise AsmError(f'bad token at {line[pos:]!r} in {line!r}')
        pos = m.end()
        g = m.lastgroup
        if m.group('num') is not None:
            toks.append(('num', int(m.group('num'), 0), m.group('w') is not None))
        elif g == 'chr':
            b = _unescape(m.group('chr')[1:-1])
            if len(b) != 1:
                raise AsmError(f'bad char literal in {line!r}')
            toks.append(('num', b[0], False))
        elif g == 'name':
            toks.append(('name', m.group('name').decode('ascii')))
        elif g == 'str':
            toks.append(('str', _unescape(m.group('str')[1:-1])))
        else:
            toks.append(('op', m.group('op').decode('ascii')))
    return toks


def _eval(toks, env, W):
    """Evaluate an immediate expression (integer arithmetic, labels, $argc, Nw)."""
    p = [0]

    def peek():
        return toks[p[0]] if p[0] < len(toks) else None

    def nxt():
        if p[0] >= len(toks):
            raise AsmError(f'truncated expression {toks}')
        t = toks[p[0]]
        p[0] += 1
        return t

    def atom():
        t = nxt()
        if t[0] == 'num':
            return t[1] * (W if t[2] else 1)
        if t[0] == 'name':
            try:
                return env[t[1]]
            except KeyError:
                raise AsmError(f'undefined label {t[1]}') from None
        if t == ('op', '-'):
            return -atom()
        if t == ('op', '+'):
            return atom()
        if t == ('op', '('):
            v = expr()
            if nxt() != ('op', ')'):
                raise AsmError(f'expected ) in {toks}')
            return v
        raise AsmError(f'bad expression {toks}')

    def term():
        v = atom()
        while peek() == ('op', '*'):
            nxt()
            v *= atom()
        return v

    def arith():
        v = term()
        while peek() in (('op', '+'), ('op', '-')):
            o = nxt()[1]
            r = term()
            v = v + r if o == '+' else v - r
        return v

    def expr():
        v = arith()
        while peek() == ('op', '&'):
            nxt()
            v &= arith()
        return v

    if not toks:
        raise AsmError('empty expression')
    v = expr()
    if p[0] != len(toks):
        raise AsmError(f'trailing tokens in expression {toks}')
    return v


def _split_args(toks):
    args = []
    cur = []
    depth = 0
    for t in toks:
        if t[0] == 'op' and t[1] in '([{':
            depth += 1
        elif t[0] == 'op' and t[1] in ')]}':
            depth -= 1
        if t == ('op', ',') and depth == 0:
            args.append(cur)
            cur = []
        else:
            cur.append(t)
    if cur or args:
        args.append(cur)
    for a in args:
        if not a:
            raise AsmError('empty operand')
    return args


# operand signatures: D = state destination [imm]; V = value (imm, [imm], {imm}); F = flag name
_SIG = {'j': 'V', 'halt': '', 'mov': 'DV', 'yield': 'V', 'sleep': 'V', 'flag': 'F',
        'lws': 'DV', 'lwc': 'DV', 'lbs': 'DV', 'lbc': 'DV',
        'lwso': 'DVV', 'lwco': 'DVV', 'lbso': 'DVV', 'lbco': 'DVV',
        'sws': 'VV', 'sbs': 'VV', 'swso': 'VVV', 'sbso': 'VVV'}
for _o in ('add', 'sub', 'mul', 'div', 'mod', 'and', 'or', 'xor', 'asl', 'asr'):
    _SIG[_o] = 'DVV'
for _o in ('heq', 'hne', 'hlt', 'hgt', 'hle', 'hge', 'hltu', 'hgtu', 'hleu', 'hgeu'):
    _SIG[_o] = 'VV'

# numeric opcodes (dispatch order in the VM is by frequency)
OPC = {n: i for i, n in enumerate([
    'j', 'halt', 'heq', 'hne', 'hlt', 'hgt', 'hle', 'hge', 'hltu', 'hgtu', 'hleu', 'hgeu',
    'mov', 'add', 'sub', 'mul', 'div', 'mod', 'and', 'or', 'xor', 'asl', 'asr',
    'lws', 'lwc', 'lbs', 'lbc', 'lwso', 'lwco', 'lbso', 'lbco',
    'sws', 'sbs', 'swso', 'sbso', 'yield', 'sleep', 'flag'])}

_STMT_RE = re.compile(r'Statement @ (.*): (\w+)$')


class Program:
    """Assembled program plus debug information for the monitors."""


def assemble(lines, argv=(), strict_header=False):
    W = None
    section = None
    argspec = None
    items = {'state': [], 'const': [], 'code': []}
    cur_owner = None
    chains = []                 # open statement chains: (indent, last marker id)
    nmarks = 0
    out_fmt = False
    for raw in lines:
        if isinstance(raw, str):
            raw = raw.encode('utf-8')
        code, comment = _strip_comment(raw)
        indent = len(raw) - len(raw.lstrip(b' '))
        if section == 'code' and raw.strip():
            # any line at a lower indentation ends the statement chains of deeper blocks
            while chains and chains[-1][0] > indent:
                chains.pop()
        if comment is not None and section == 'code':
            c = comment.strip().decode('utf-8', 'replace')
            if c.startswith('Function ') and c.endswith(':'):
                cur_owner = c[9:-1]
                items['code'].append(('owner', cur_owner))
            else:
                m = _STMT_RE.match(c)
                if m:
                    prev = None
                    if chains and chains[-1][0] == indent:
                        prev = chains[-1][1]
                        chains.pop()
                    chains.append((indent, nmarks))
                    items['code'].append(('mark', indent, m.group(2), m.group(1), prev))
                    nmarks += 1
                elif c.startswith('stop block') or c.startswith('undo block'):
                    items['code'].append(('note', c))
        line = code.strip()
        if not line:
            continue
        if line.startswith(b'%'):
            parts = line.split()
            if parts[0] == b'%argv':
                if argspec is not None:
                    raise AsmError('duplicate %argv')
                argspec = [p.decode('utf-8') for p in parts[1:]]
            elif parts[0] == b'%format' and len(parts) == 3 and parts[1] == b'word':
                if W is not None:
                    raise AsmError('duplicate word format')
                W = int(parts[2])
                if W < 1:
                    raise AsmError('bad word size')
            elif parts[0] == b'%format' and parts[1:] == [b'output', b'byte']:
                out_fmt = True
            elif parts[0] == b'%section' and len(parts) == 2 and parts[1] in (b'state', b'const', b'code'):
                section = parts[1].decode()
            else:
                raise AsmError(f'bad directive {line!r}')
            continue
        if section is None:
            raise AsmError(f'content outside section: {line!r}')
        toks = _tokenize(line)
        while len(toks) >= 2 and toks[0][0] == 'name' and toks[1] == ('op', ':'):
            items[section].append(('label', toks[0][1]))
            toks = toks[2:]
        if not toks:
            continue
        if toks[0][0] != 'name':
            raise AsmError(f'expected mnemonic in {line!r}')
        items[section].append(('stmt', toks[0][1], toks[1:], raw))
    if strict_header and (W is None or not out_fmt):
        raise AsmError('missing %format word / %format output byte')
    if W is None:
        W = 2       # Sphinx default (upstream test_basic relies on it)
    mask = (1 << (8 * W)) - 1

    # ---- argv binding
    argv = [a if isinstance(a, str) else str(a) for a in argv]
    names = {}
    before = []
    after = []
    var = None
    for s in argspec or []:
        if s.startswith('[<') and s.endswith('>...]'):
            if var is not None:
                raise AsmError('two variadic arguments')
            var = s[2:-5]
        elif s.startswith('<') and s.endswith('>'):
            (before if var is None else after).append(s[1:-1])
        else:
            raise AsmError(f'bad argv spec {s}')
    nfixed = len(before) + len(after)
    if (var is None and len(argv) != nfixed) or len(argv) < nfixed:
        raise AsmError(f'wrong number of arguments: {len(argv)} for {argspec}')
    for i, n in enumerate(before):
        names[n] = [argv[i]]
    for i, n in enumerate(after):
        names[n] = [argv[len(argv) - len(after) + i]]
    if var is not None:
        names[var] = argv[len(before):len(argv) - len(after)]
    env = {'$argc': len(argv)}

    def arg_vals(toks):
        if len(toks) < 2 or toks[0][0] != 'name' or toks[1][0] != 'name':
            raise AsmError(f'bad .arg {toks}')
        name, fmt = toks[0][1], toks[1][1]
        params = []
        for t in toks[2:]:
            if t[0] != 'name':
                raise AsmError(f'bad .arg {toks}')
            params.append(t[1])
        if name not in names:
            raise AsmError(f'.arg of unknown argument {name}')
        if fmt not in ('word', 'byte', 'asciip') or any(p != 'array' for p in params):
            raise AsmError(f'bad .arg format {toks}')
        return names[name], fmt, 'array' in params

    def data_size(op, toks):
        if op == '.word':
            return W * len(_split_args(toks))
        if op == '.byte':
            return len(_split_args(toks))
        if op == '.zero':
            v = _eval(toks, {}, W)
            if v < 0:
                raise AsmError('negative .zero')
            if v > MAX_SECTION:
                raise AsmLimit(f'.zero of {v} bytes')
            return v
        if op == '.ascii':
            if len(toks) != 1 or toks[0][0] != 'str':
                raise AsmError(f'bad .ascii {toks}')
            return len(toks[0][1])
        if op == '.arg':
            vals, fmt, arr = arg_vals(toks)
            if fmt == 'word':
                return W * len(vals)
            if fmt == 'byte':
                return len(vals)
            if arr:
                return W * len(vals) + sum(W + len(v.encode('utf-8')) for v in vals)
            return W + len(vals[0].encode('utf-8'))
        raise AsmError(f'unknown data directive {op}')

    # ---- pass 1: layout
    labels_at = {'state': {}, 'const': {}}     # offset -> [names]
    sizes = {}
    seen = set()
    for sec in ('state', 'const'):
        off = 0
        for it in items[sec]:
            if it[0] == 'label':
                if it[1] in seen:
                    raise AsmError(f'duplicate label {it[1]}')
                seen.add(it[1])
                env[it[1]] = off
                labels_at[sec].setdefault(off, []).append(it[1])
            elif it[0] == 'stmt':
                if not it[1].startswith('.'):
                    raise AsmError(f'instruction in data section: {it[3]!r}')
                off += data_size(it[1], it[2])
        sizes[sec] = off
    pc = 0
    code_labels = {}            # pc -> [names]
    label_owner = {}
    owner = '<start>'
    in_lib = False
    for it in items['code']:
        if it[0] == 'owner':
            owner = it[1]
        elif it[0] == 'label':
            if it[1] in seen:
                raise AsmError(f'duplicate label {it[1]}')
            seen.add(it[1])
            if it[1] == 'all_is_win':
                owner = 'lib'
            env[it[1]] = pc
            code_labels.setdefault(pc, []).append(it[1])
            label_owner[it[1]] = owner
        elif it[0] == 'stmt':
            pc += 1

    # ---- pass 2: data
    extents = {'state': [], 'const': []}        # (start, size, name)
    mem = {}
    for sec in ('state', 'const'):
        buf = bytearray()
        cur = None
        for it in items[sec]:
            if it[0] == 'label':
                cur = it[1]
                continue
            if it[0] != 'stmt':
                continue
            op, toks = it[1], it[2]
            start = len(buf)
            if op == '.word':
                for a in _split_args(toks):
                    buf += (_eval(a, env, W) & mask).to_bytes(W, 'little')
            elif op == '.byte':
                for a in _split_args(toks):
                    buf.append(_eval(a, env, W) & 0xFF)
            elif op == '.zero':
                buf += bytes(_eval(toks, env, W))
            elif op == '.ascii':
                buf += toks[0][1]
            elif op == '.arg':
                vals, fmt, arr = arg_vals(toks)
                try:
                    if fmt == 'word':
                        for v in vals:
                            buf += (int(v, 10) & mask).to_bytes(W, 'little')
                    elif fmt == 'byte':
                        for v in vals:
                            buf.append(int(v, 10) & 0xFF)
                    elif arr:
                        base = len(buf) + W * len(vals)
                        ptrs = []
                        bodies = bytearray()
                        for v in vals:
                            e = v.encode('utf-8')
                            ptrs.append(base + len(bodies))
                            extents[sec].append((base + len(bodies), W + len(e), 'argstr'))
                            extents[sec].append((base + len(bodies) + W, len(e), 'argstr.body'))
                            bodies += (len(e) & mask).to_bytes(W, 'little') + e
                        for q in ptrs:
                            buf += (q & mask).to_bytes(W, 'little')
                        buf += bodies
                    else:
                        e = vals[0].encode('utf-8')
                        buf += (len(e) & mask).to_bytes(W, 'little') + e
                except ValueError:
                    raise AsmError(f'bad integer argument in {vals}') from None
            if cur is not None:
                extents[sec].append((start, len(buf) - start, cur))
        if len(buf) != sizes[sec]:
            raise AsmError('layout mismatch')
        mem[sec] = buf
    # merge consecutive data directives under one label into one extent, and add string bodies
    for sec in ('state', 'const'):
        merged = {}
        extra = []
        for start, size, name in extents[sec]:
            if name.startswith('argstr'):
                extra.append((start, size, name))
            elif name in merged:
                s0, z0 = merged[name]
                merged[name] = (s0, start + size - s0)
            else:
                merged[name] = (start, size)
        ext = [(s, z, n) for n, (s, z) in merged.items()] + extra
        if sec == 'const':
            for n, (s, z) in merged.items():
                if (n.startswith('string_') or n.startswith('arg_')) and z >= W:
                    ext.append((s + W, z - W, n + '.body'))
        extents[sec] = ext

    # ---- pass 3: code
    code = []
    raw_lines = []
    owners = []
    jlabel = []                 # for 'j' with an immediate label operand: the label name
    marks_at = {}               # pc -> [(indent, class, span, mark_id)]
    marks = []                  # mark_id -> (indent, class, span, pc)
    prev_sib = []               # mark_id -> previous statement of the same block (or None)
    notes_at = {}
    owner = '<start>'
    in_lib = False
    for it in items['code']:
        if it[0] == 'owner':
            owner = it[1]
            continue
        if it[0] == 'mark':
            mid = len(marks)
            prev_sib.append(it[4])
            marks.append((it[1], it[2], it[3], len(code)))
            marks_at.setdefault(len(code), []).append(mid)
            continue
        if it[0] == 'note':
            notes_at.setdefault(len(code), []).append(it[1])
            continue
        if it[0] == 'label':
            if it[1] == 'all_is_win':
                owner = 'lib'
            continue
        op, toks, raw = it[1], it[2], it[3]
        sig = _SIG.get(op)
        if sig is None:
            raise AsmError(f'unknown mnemonic {op} in {raw!r}')
        args = _split_args(toks)
        if len(args) != len(sig):
            raise AsmError(f'wrong operand count in {raw!r}')
        dec = []
        jl = None
        for kind, a in zip(sig, args):
            if kind == 'F':
                if len(a) != 1 or a[0][0] != 'name':
                    raise AsmError(f'bad flag in {raw!r}')
                dec.append(a[0][1])
                continue
            if a[0] == ('op', '['):
                if a[-1] != ('op', ']'):
                    raise AsmError(f'bad operand in {raw!r}')
                dec.append(1)
                dec.append(_eval(a[1:-1], env, W) & mask)
            elif a[0] == ('op', '{'):
                if a[-1] != ('op', '}') or kind == 'D':
                    raise AsmError(f'bad operand in {raw!r}')
                dec.append(2)
                dec.append(_eval(a[1:-1], env, W) & mask)
            else:
                if kind == 'D':
                    raise AsmError(f'destination must be a state word in {raw!r}')
                dec.append(0)
                dec.append(_eval(a, env, W) & mask)
                if op == 'j' and len(a) == 1 and a[0][0] == 'name':
                    jl = a[0][1]
        while len(dec) < 6:
            dec.append(0)
        code.append((OPC[op], dec[0], dec[1], dec[2], dec[3], dec[4], dec[5]))
        raw_lines.append(raw)
        owners.append(owner)
        jlabel.append(jl)

    P = Program()
    P.W = W
    P.state = mem['state']
    P.const = bytes(mem['const'])
    P.code = code
    P.raw = raw_lines
    P.env = env
    P.code_labels = code_labels
    P.label_owner = label_owner
    P.owners = owners
    P.jlabel = jlabel
    P.extents = extents
    P.marks = marks
    P.marks_at = marks_at
    P.prev_sib = prev_sib
    P.notes_at = notes_at
    P.argv = list(argv)
    return P


# ----------------------------------------------------------------------------
# Trace canonicalisation
# ----------------------------------------------------------------------------

def canon_trace(pre, period):
    """Canonical (minimal preperiod, primitive period) form of pre + period^omega."""
    pre = list(pre)
    period = list(period)
    n = len(period)
    if n:
        for d in range(1, n + 1):
            if n % d == 0 and period[:d] * (n // d) == period:
                period = period[:d]
                break
        while pre and pre[-1] == period[-1]:
            pre.pop()
            period = [period[-1]] + period[:-1]
    return tuple(pre), tuple(period)


class Result:
    __slots__ = ('outcome', 'pre', 'period', 'steps', 'rollbacks', 'choices', 'maxdepth',
                 'cycles', 'spec_halts', 'violations', 'trap', 'mon_points', 'final_pc')

    @property
    def output(self):
        return bytes(e[1] for e in self.pre if e[0] == 'y')

    @property
    def flags(self):
        return [e[1] for e in self.pre if e[0] == 'f']

    @property
    def trace(self):
        return (self.pre, self.period)

    def summary(self):
        return {'outcome': self.outcome, 'output': self.output.decode('latin1'),
                'flags': self.flags, 'period': [list(e) for e in self.period],
                'trap': self.trap}


def fmt_events(ev):
    out = []
    buf = bytearray()
    for e in ev:
        if e[0] == 'y':
            buf.append(e[1])
        else:
            if buf:
                out.append(repr(bytes(buf))[1:])
                buf = bytearray()
            out.append(f'{e[0]}:{e[1]}')
    if buf:
        out.append(repr(bytes(buf))[1:])
    return ' '.join(out)


def fmt_trace(tr):
    return fmt_events(tr[0]) + ' | (' + fmt_events(tr[1]) + ')*'


# ----------------------------------------------------------------------------
# VM
# ----------------------------------------------------------------------------

_J, _HALT, _HEQ, _HNE, _HLT, _HGT, _HLE, _HGE, _HLTU, _HGTU, _HLEU, _HGEU = range(12)
_MOV, _ADD, _SUB, _MUL, _DIV, _MOD, _AND, _OR, _XOR, _ASL, _ASR = range(12, 23)
_LWS, _LWC, _LBS, _LBC, _LWSO, _LWCO, _LBSO, _LBCO = range(23, 31)
_SWS, _SBS, _SWSO, _SBSO, _YIELD, _SLEEP, _FLAG = range(31, 38)


class Monitor:
    """Configuration + accumulated results of the invariant monitors.

    mem:   C04 access entitlement (DESIGN section 6, C04 rules 1-7)
    scope: C08 (fp, ap) discipline at statement boundaries, loop heads and loop exits
    flow:  C16 function-boundary fall-through, C04(6) jumps land on labels
    """

    def __init__(self, mem=True, scope=True, flow=True, max_viol=5):
        self.mem = mem
        self.scope = scope
        self.flow = flow
        self.max_viol = max_viol
        self.violations = []
        self.points = {'mem': 0, 'scope': 0, 'flow': 0}


def run(P, max_steps=2_000_000, mon=None):
    W = P.W
    bits = 8 * W
    mask = (1 << bits) - 1
    sign = 1 << (bits - 1)
    full = 1 << bits
    mem = bytearray(P.state)
    const = P.const
    code = P.code
    ncode = len(code)
    msize = len(mem)
    csize = len(const)
    journal = []
    events = []
    choices = []
    pc = 0
    steps = 0
    rollbacks = 0
    nchoices = 0
    maxdepth = 0
    spec_halts = 0
    from_bytes = int.from_bytes
    # Brent cycle detection over the sequence of states at taken jumps
    power = 1
    lam = 0
    tort_pc = -1
    tort_mem = None
    tort_step = -1
    tort_ev = 0
    R = Result()
    R.violations = []
    R.trap = None
    R.cycles = 0
    R.mon_points = None

    # ---- monitor set-up
    mon_mem = mon_scope = mon_flow = False
    viol = R.violations
    if mon is not None:
        mon_mem, mon_scope, mon_flow = mon.mem, mon.scope, mon.flow
        env = P.env
        AP = env['ap']
        FP = env['fp']
        stack_start = env['stack_start']
        stack_end = env['stack_end']
        lib_start = env['all_is_win']
        owners = P.owners
        jlabel = P.jlabel
        label_owner = P.label_owner
        code_labels = P.code_labels
        direct_ok = {}          # address -> size of the register / global starting there
        for nm in ('ap', 'fp', 'r0', 'r1', 'r2', 'try_fp', 'defeat'):
            if nm in env:
                direct_ok[env[nm]] = W
        st_ext = {}      # start -> size (global extents outside the stack)
        for s, z, n in P.extents['state']:
            if n in ('ap', 'fp', 'r0', 'r1', 'r2', 'try_fp', 'defeat', 'stack_start', 'stack_end'):
                continue
            st_ext[s] = max(st_ext.get(s, 0), z)
            direct_ok[s] = max(direct_ok.get(s, 0), z)
        co_ext = {}
        for s, z, n in P.extents['const']:
            co_ext[s] = max(co_ext.get(s, 0), z)
        allocs = []             # live stack arrays [(origin, size)], journaled
        mstate = {}             # monitor dictionary, journaled
        marks = P.marks
        marks_at = P.marks_at
        prev_sib = P.prev_sib
        loop_heads = {}
        break_of = {}
        for lpc, nms in code_labels.items():
            for nm in nms:
                if nm.startswith('loop_'):
                    loop_heads[lpc] = nm
                elif nm.startswith('break_'):
                    break_of[lpc] = 'loop_' + nm[6:]
        npoints_mem = npoints_scope = npoints_flow = 0
        max_viol = mon.max_viol
        arrived_by = None        # label name operand of the jump just taken (None = sequential/computed)
        lastpc = -2

        def flag(kind, msg):
            if len(viol) < max_viol:
                viol.append({'monitor': kind, 'pc': pc, 'instr': P.raw[pc].decode('latin1').strip() if 0 <= pc < ncode else '',
                             'owner': owners[pc] if 0 <= pc < ncode else None, 'msg': msg,
                             'speculative_depth': len(choices)})

        def check_access(store, sec, bkind, baddr, base, a, n):
            """bkind: operand kind of the base (0 imm, 1 state word, None = direct).
            baddr: address of the base register when bkind == 1."""
            ap = from_bytes(mem[AP:AP + W], 'little')
            fp = from_bytes(mem[FP:FP + W], 'little')
            lib = pc >= lib_start
            if sec == 'c':
                if store:
                    flag('mem', 'store to const')
                    return
                if lib:
                    ok = False
                    for s, z in co_ext.items():
                        if s <= a and a + n <= s + z:
                            ok = True
                            break
                else:
                    z = co_ext.get(base)
                    ok = z is not None and base <= a and a + n <= base + z
                    if not ok:
                        # arg string pointers: base is start of a packed string
                        ok = False
                if not ok:
                    flag('mem', f'const access [{a},{a + n}) base={base} outside its extent')
                return
            if bkind is None:
                # direct address (lbs/sbs/lws/sws with immediate address)
                if direct_ok.get(a, 0) < n:
                    flag('mem', f'direct access [{a},{a + n}) is not a register or scalar global')
                return
            if bkind == 1 and baddr == FP:
                if not (ap <= a and a + n <= fp):
                    flag('mem', f'frame access [{a},{a + n}) outside [ap={ap}, fp={fp})')
                return
            if bkind == 1 and baddr == AP:
                if not allocs or not (allocs[-1][0] <= a and a + n <= allocs[-1][0] + allocs[-1][1]):
                    flag('mem', f'ap-based access [{a},{a + n}) outside newest array {allocs[-1] if allocs else None}')
                return
            # computed address
            if stack_start <= a < stack_end or stack_start < a + n <= stack_end:
                if lib:
                    if store:
                        ok = ap <= a and a + n <= fp
                    else:
                        ok = ap <= a and a + n <= fp
                        if not ok:
                            for o, z in allocs:
                                if o <= a and a + n <= o + z:
                                    ok = True
                                    break
                else:
                    ok = False
                    for o, z in allocs:
                        if o == base and base <= a and a + n <= base + z:
                            ok = True
                            break
                if not ok:
                    flag('mem', f'computed {"store" if store else "load"} [{a},{a + n}) base={base} ap={ap} fp={fp} '
                                f'lib={lib} not inside a live array')
                return
            if lib:
                ok = False
                for s, z in st_ext.items():
                    if s <= a and a + n <= s + z:
                        ok = not store
                        break
            else:
                z = st_ext.get(base)
                ok = z is not None and base <= a and a + n <= base + z
            if not ok:
                flag('mem', f'computed {"store" if store else "load"} [{a},{a + n}) base={base} outside any global extent')

    def word(a):
        return from_bytes(mem[a:a + W], 'little')

    trap = None
    outcome = None
    while True:
        if steps >= max_steps:
            outcome = 'budget'
            break
        halted = False
        if pc >= ncode:
            trap = f'pc {pc} outside code'
            break
        # ---------------- monitors at instruction arrival
        if mon is not None:
            if mon_flow and lastpc == pc - 1 and owners[pc] != owners[lastpc] and lastpc >= 0:
                npoints_flow += 1
                flag('flow', f'sequential fall-through from {owners[lastpc]} into {owners[pc]}')
            if mon_scope and (pc in marks_at or pc in loop_heads or pc in break_of):
                fpv = from_bytes(mem[FP:FP + W], 'little')
                apv = from_bytes(mem[AP:AP + W], 'little')
                if pc in marks_at:
                    for mid in marks_at[pc]:
                        ps = prev_sib[mid]
                        if ps is not None:
                            rec = mstate.get(('m', ps, fpv))
                            if rec is not None:
                                npoints_scope += 1
                                if marks[ps][1] == 'Declaration':
                                    if apv < rec:
                                        flag('scope', f'ap fell from {rec} to {apv} across declaration {marks[ps][2]}')
                                elif apv != rec:
                                    flag('scope', f'ap changed {rec}->{apv} across {marks[ps][1]} {marks[ps][2]} (fp={fpv})')
                        key = ('m', mid, fpv)
                        journal.append((0, key, mstate.get(key)))
                        mstate[key] = apv
                if pc in loop_heads:
                    key = ('l', loop_heads[pc], fpv)
                    prev = mstate.get(key)
                    if arrived_by == loop_heads[pc] and prev is not None:
                        npoints_scope += 1
                        if prev != apv:
                            flag('scope', f'loop head {loop_heads[pc]}: ap drifted {prev}->{apv} between iterations')
                    else:
                        journal.append((0, key, prev))
                        mstate[key] = apv
                if pc in break_of:
                    key = ('l', break_of[pc], fpv)
                    prev = mstate.get(key)
                    if prev is not None:
                        npoints_scope += 1
                        if prev != apv:
                            flag('scope', f'loop exit of {break_of[pc]}: ap {apv} differs from loop entry {prev}')
                        journal.append((0, key, prev))
                        mstate[key] = None
            lastpc = pc
            arrived_by = None
        op, k1, v1, k2, v2, k3, v3 = code[pc]
        steps += 1
        if op == _J:
            if k1 == 0:
                target = v1
            elif k1 == 1:
                target = from_bytes(mem[v1:v1 + W], 'little')
                if mon_mem and direct_ok.get(v1, 0) < W:
                    flag('mem', f'direct operand [{v1}] is not a register')
            else:
                target = from_bytes(const[v1:v1 + W], 'little')
            choices.append((target, len(journal), len(events), steps, pc))
            nchoices += 1
            if len(choices) > maxdepth:
                maxdepth = len(choices)
            pc += 1
            continue
        elif op == _HALT:
            halted = True
        else:
            # ---- operand fetch (value operands 2 and 3 for most instructions)
            if op <= _HGEU:
                # conditional halts: operands 1 and 2
                if k1 == 0:
                    l = v1
                elif k1 == 1:
                    l = from_bytes(mem[v1:v1 + W], 'little')
                else:
                    l = from_bytes(const[v1:v1 + W], 'little')
                if k2 == 0:
                    r = v2
                elif k2 == 1:
                    r = from_bytes(mem[v2:v2 + W], 'little')
                else:
                    r = from_bytes(const[v2:v2 + W], 'little')
                if mon_mem:
                    if k1 == 1 and direct_ok.get(v1, 0) < W:
                        flag('mem', f'direct operand [{v1}] is not a register or scalar global')
                    if k2 == 1 and direct_ok.get(v2, 0) < W:
                        flag('mem', f'direct operand [{v2}] is not a register or scalar global')
                if op <= _HGE:
                    if op == _HEQ:
                        halted = l == r
                    elif op == _HNE:
                        halted = l != r
                    else:
                        if l & sign:
                            l -= full
                        if r & sign:
                            r -= full
                        if op == _HLT:
                            halted = l < r
                        elif op == _HGT:
                            halted = l > r
                        elif op == _HLE:
                            halted = l <= r
                        else:
                            halted = l >= r
                elif op == _HLTU:
                    halted = l < r
                elif op == _HGTU:
                    halted = l > r
                elif op == _HLEU:
                    halted = l <= r
                else:
                    halted = l >= r
                pc += 1
            elif op <= _LBCO:
                # destination forms: dest = state word v1
                if k2 == 0:
                    a = v2
                elif k2 == 1:
                    a = from_bytes(mem[v2:v2 + W], 'little')
                else:
                    a = from_bytes(const[v2:v2 + W], 'little')
                if mon_mem:
                    if direct_ok.get(v1, 0) < W:
                        flag('mem', f'direct destination [{v1}] is not a register or scalar global')
                    if k2 == 1 and direct_ok.get(v2, 0) < W:
                        flag('mem', f'direct operand [{v2}] is not a register or scalar global')
                    if k3 == 1 and direct_ok.get(v3, 0) < W and op != _MOV and op < _LWS:
                        flag('mem', f'direct operand [{v3}] is not a register or scalar global')
                if op == _MOV:
                    val = a
                elif op <= _ASR:
                    if k3 == 0:
                        b = v3
                    elif k3 == 1:
                        b = from_bytes(mem[v3:v3 + W], 'little')
                    else:
                        b = from_bytes(const[v3:v3 + W], 'little')
                    if op == _ADD:
                        val = a + b
                    elif op == _SUB:
                        val = a - b
                    elif op == _MUL:
                        val = a * b
                    elif op == _AND:
                        val = a & b
                    elif op == _OR:
                        val = a | b
                    elif op == _XOR:
                        val = a ^ b
                    elif op == _ASL:
                        val = (a << b) if b < bits else 0
                    elif op == _ASR:
                        if a & sign:
                            a -= full
                        val = a >> (b if b < bits else bits)
                    else:
                        if a & sign:
                            a -= full
                        if b & sign:
                            b -= full
                        if b == 0:
                            trap = 'division by zero'
                            break
                        val = a // b if op == _DIV else a % b
                else:
                    # loads
                    if op >= _LWSO:
                        if k3 == 0:
                            b = v3
                        elif k3 == 1:
                            b = from_bytes(mem[v3:v3 + W], 'little')
                        else:
                            b = from_bytes(const[v3:v3 + W], 'little')
                        ad = (a + b) & mask
                        o4 = op - 4
                        bk = k2
                        if mon_mem and k3 == 1 and direct_ok.get(v3, 0) < W:
                            flag('mem', f'direct operand [{v3}] is not a register or scalar global')
                    else:
                        ad = a
                        o4 = op
                        bk = None if k2 == 0 else k2
                    n = W if o4 <= _LWC else 1
                    if o4 == _LWS or o4 == _LBS:
                        if ad + n > msize:
                            trap = f'state load [{ad},{ad + n}) outside memory'
                            break
                        if mon_mem:
                            npoints_mem += 1
                            check_access(False, 's', bk, v2, a, ad, n)
                        val = from_bytes(mem[ad:ad + n], 'little')
                    else:
                        if ad + n > csize:
                            trap = f'const load [{ad},{ad + n}) outside memory'
                            break
                        if mon_mem:
                            npoints_mem += 1
                            check_access(False, 'c', bk, v2, a, ad, n)
                        val = from_bytes(const[ad:ad + n], 'little')
                # write destination
                if v1 + W > msize:
                    trap = f'store [{v1},{v1 + W}) outside memory'
                    break
                val &= mask
                if mon_mem and v1 == AP:
                    old = from_bytes(mem[AP:AP + W], 'little')
                    if val > old:
                        allocs.append((old, val - old))
                        journal.append((2, None, None))
                    elif val < old:
                        while allocs and allocs[-1][0] >= val:
                            journal.append((1, allocs.pop(), None))
                journal.append((v1, mem[v1:v1 + W]))
                mem[v1:v1 + W] = val.to_bytes(W, 'little')
                pc += 1
            elif op <= _SBSO:
                # stores
                if k1 == 0:
                    a = v1
                elif k1 == 1:
                    a = from_bytes(mem[v1:v1 + W], 'little')
                else:
                    a = from_bytes(const[v1:v1 + W], 'little')
                if k2 == 0:
                    b = v2
                elif k2 == 1:
                    b = from_bytes(mem[v2:v2 + W], 'little')
                else:
                    b = from_bytes(const[v2:v2 + W], 'little')
                if op >= _SWSO:
                    if k3 == 0:
                        val = v3
                    elif k3 == 1:
                        val = from_bytes(mem[v3:v3 + W], 'little')
                    else:
                        val = from_bytes(const[v3:v3 + W], 'little')
                    ad = (a + b) & mask
                    n = W if op == _SWSO else 1
                    bk = k1
                    if mon_mem:
                        if k2 == 1 and direct_ok.get(v2, 0) < W:
                            flag('mem', f'direct operand [{v2}] is not a register or scalar global')
                        if k3 == 1 and direct_ok.get(v3, 0) < W:
                            flag('mem', f'direct operand [{v3}] is not a register or scalar global')
                else:
                    val = b
                    ad = a
                    n = W if op == _SWS else 1
                    bk = None if k1 == 0 else k1
                    if mon_mem and k2 == 1 and direct_ok.get(v2, 0) < W:
                        flag('mem', f'direct operand [{v2}] is not a register or scalar global')
                if mon_mem and k1 == 1 and direct_ok.get(v1, 0) < W:
                    flag('mem', f'direct operand [{v1}] is not a register or scalar global')
                if ad + n > msize:
                    trap = f'state store [{ad},{ad + n}) outside memory'
                    break
                if mon_mem:
                    npoints_mem += 1
                    check_access(True, 's', bk, v1, a, ad, n)
                    if ad == AP and n == W:
                        old = from_bytes(mem[AP:AP + W], 'little')
                        nv = val & mask
                        if nv > old:
                            allocs.append((old, nv - old))
                            journal.append((2, None, None))
                        elif nv < old:
                            while allocs and allocs[-1][0] >= nv:
                                journal.append((1, allocs.pop(), None))
                journal.append((ad, mem[ad:ad + n]))
                mem[ad:ad + n] = (val & (mask if n == W else 0xFF)).to_bytes(n, 'little')
                pc += 1
            else:
                if op == _FLAG:
                    events.append(('f', k1))
                else:
                    if k1 == 0:
                        a = v1
                    elif k1 == 1:
                        a = from_bytes(mem[v1:v1 + W], 'little')
                        if mon_mem and direct_ok.get(v1, 0) < W:
                            flag('mem', f'direct operand [{v1}] is not a register or scalar global')
                    else:
                        a = from_bytes(const[v1:v1 + W], 'little')
                    if op == _YIELD:
                        events.append(('y', a & 0xFF))
                    else:
                        events.append(('s', a))
                pc += 1
        if mon_mem:
            if from_bytes(mem[AP:AP + W], 'little') > from_bytes(mem[FP:FP + W], 'little'):
                flag('mem', 'ap > fp')
        if halted:
            if not choices:
                outcome = 'halt'
                break
            spec_halts += 1
            rollbacks += 1
            target, jlen, elen, cstep, jpc = choices.pop()
            while len(journal) > jlen:
                e = journal.pop()
                if len(e) == 2:
                    ad = e[0]
                    mem[ad:ad + len(e[1])] = e[1]
                elif e[0] == 0:
                    if e[2] is None:
                        mstate.pop(e[1], None)
                    else:
                        mstate[e[1]] = e[2]
                elif e[0] == 1:
                    allocs.append(e[1])
                else:
                    allocs.pop()
            del events[elen:]
            if tort_step > cstep:
                # the tortoise was taken on the abandoned path; keep `power` so that the spacing keeps growing
                # (resetting it would let a loop whose every iteration speculates starve the detector)
                tort_mem = None
                lam = 0
            if mon is not None:
                arrived_by = jlabel[jpc]
                lastpc = -2
                if mon_flow:
                    npoints_flow += 1
                    if target >= ncode:
                        pass
                    elif target not in code_labels:
                        pc = jpc
                        flag('flow', f'taken jump lands on {target}, which is not a label')
                    else:
                        jl = jlabel[jpc]
                        if jl is not None:
                            if label_owner[jl] != owners[target]:
                                pc = jpc
                                flag('flow', f'jump to {jl} (owned by {label_owner[jl]}) lands in {owners[target]}: '
                                             f'control runs off the end of the function')
                        else:
                            nms = code_labels[target]
                            ok = False
                            for nm in nms:
                                if label_owner[nm] == owners[target]:
                                    ok = True
                            if not ok:
                                pc = jpc
                                flag('flow', f'computed jump lands on {nms}, owned by another function than the code there ({owners[target]})')
            pc = target
            if pc == tort_pc and tort_mem is not None and mem == tort_mem:
                outcome = 'loop'
                R.cycles = 1
                break
            lam += 1
            if tort_mem is None or lam == power:
                if tort_mem is not None:
                    power *= 2
                tort_pc = pc
                tort_mem = bytes(mem)
                tort_step = steps
                tort_ev = len(events)
                lam = 0

    if trap is not None:
        outcome = 'trap'
        R.trap = f'{trap} at pc={pc}: {P.raw[pc].decode("latin1").strip() if 0 <= pc < ncode else ""}'
    R.outcome = outcome
    if outcome == 'loop':
        R.pre, R.period = canon_trace(events[:tort_ev], events[tort_ev:])
    else:
        R.pre, R.period = tuple(events), ()
    R.steps = steps
    R.rollbacks = rollbacks
    R.choices = nchoices
    R.maxdepth = maxdepth
    R.spec_halts = spec_halts
    R.final_pc = pc
    if mon is not None:
        R.mon_points = {'mem': npoints_mem, 'scope': npoints_scope, 'flow': npoints_flow}
    return R
