"""Import a sub-agent's deliverables into /verif/seeded/<id>/.
   rounds 1, 2:  python -m hv.seedimport C07 [2]     (/tmp/out_C07 or /tmp/out2_C07  ->  C07-1.. / C07-3..)
   round 3:      python -m hv.seedimport A7 3        (/tmp/out3_A7; property read from the first line of notes<k>.md -> Cxx-A7-k)
   round 4:      python -m hv.seedimport F7 4        (/tmp/out4_F7; likewise -> Cxx-F7-k)
   round 5:      python -m hv.seedimport G7 5        (/tmp/out5_G7; likewise -> Cxx-G7-k)
   round 6:      python -m hv.seedimport R7 6        (/tmp/out6_R7; likewise -> Cxx-R7-k)
   round 7:      python -m hv.seedimport X7 7        (/tmp/out7_X7; likewise -> Cxx-X7-k)
   round 8:      python -m hv.seedimport Y7 8        (/tmp/out8_Y7; likewise -> Cxx-Y7-k)"""
import json
import os
import re
import shutil
import sys


def main():
    key = sys.argv[1]
    rnd = int(sys.argv[2]) if len(sys.argv) > 2 else 1
    src = f'/tmp/out_{key}' if rnd == 1 else f'/tmp/out{rnd}_{key}'
    for k in (1, 2, 3):
        if not (os.path.exists(f'{src}/patch{k}.diff') and os.path.exists(f'{src}/demo{k}.py')):
            continue
        notes = open(f'{src}/notes{k}.md').read() if os.path.exists(f'{src}/notes{k}.md') else ''
        if rnd < 3:
            pid = key
            sid = f'{pid}-{k + 2 * (rnd - 1)}'
        else:
            m = re.search(r'PROPERTY:\s*(C\d\d)', notes)
            pid = m.group(1) if m else 'C00'
            sid = f'{pid}-{key}-{k}'
        d = f'/verif/seeded/{sid}'
        os.makedirs(d, exist_ok=True)
        shutil.copy(f'{src}/patch{k}.diff', f'{d}/patch.diff')
        shutil.copy(f'{src}/demo{k}.py', f'{d}/demo.py')
        if notes:
            open(f'{d}/notes.md', 'w').write(notes)
        meta_path = f'{d}/meta.json'
        meta = json.load(open(meta_path)) if os.path.exists(meta_path) else {}
        meta.setdefault('id', sid)
        meta.setdefault('round', rnd)
        meta.setdefault('property', pid)
        meta.setdefault('origin', 'independent sub-agent given only the property text(s), a private worktree and a neutral emulator driver'
                        + (f'; round 3: free choice of property, confined to compiler area {key}' if rnd == 3 else '')
                        + (f'; round 4: free choice of property and place, confined to language feature focus {key}' if rnd == 4 else '')
                        + (f'; round 7: starting from one shipped example program ({key}); the change must leave every example unchanged and break a plausible variation of it' if rnd == 7 else '')
                        + (f'; round 8: a good-faith optimisation / refactor / clean-up on a given theme ({key}) that is wrong in a corner, or two cooperating edits; examples byte-identical' if rnd == 8 else '')
                        + (f'; round 6: confined to one region of the code ({key}), free choice of property' if rnd == 6 else '')
                        + (f'; round 5: free choice of property and place, focus on a combination of two features ({key}), asked for changes that need more to manifest' if rnd == 5 else ''))
        meta.setdefault('needs_to_manifest', 'see notes.md')
        if rnd >= 3 and 'summary' not in meta:
            lines = [l.strip() for l in notes.splitlines() if l.strip() and not l.startswith('PROPERTY')]
            meta['summary'] = (lines[0][:160] if lines else '')
        json.dump(meta, open(meta_path, 'w'), indent=1)
        print('imported', d)


main()
