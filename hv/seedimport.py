"""Import a sub-agent's deliverables (/tmp/out_<pid>/{patch,demo,notes}<k>) into /verif/seeded/<pid>-<k>/."""
import json
import os
import shutil
import sys

def main():
    pid = sys.argv[1]
    rnd = int(sys.argv[2]) if len(sys.argv) > 2 else 1
    src = f'/tmp/out_{pid}' if rnd == 1 else f'/tmp/out{rnd}_{pid}'
    for k in (1, 2):
        if not os.path.exists(f'{src}/patch{k}.diff'):
            continue
        d = f'/verif/seeded/{pid}-{k + 2 * (rnd - 1)}'
        os.makedirs(d, exist_ok=True)
        shutil.copy(f'{src}/patch{k}.diff', f'{d}/patch.diff')
        shutil.copy(f'{src}/demo{k}.py', f'{d}/demo.py')
        if os.path.exists(f'{src}/notes{k}.md'):
            shutil.copy(f'{src}/notes{k}.md', f'{d}/notes.md')
        meta_path = f'{d}/meta.json'
        meta = json.load(open(meta_path)) if os.path.exists(meta_path) else {}
        meta.setdefault('id', os.path.basename(d))
        meta.setdefault('round', rnd)
        meta.setdefault('property', pid)
        meta.setdefault('origin', 'independent sub-agent given only the property text, a private worktree and a neutral emulator driver')
        notes = open(f'{d}/notes.md').read() if os.path.exists(f'{d}/notes.md') else ''
        meta.setdefault('needs_to_manifest', 'see notes.md')
        json.dump(meta, open(meta_path, 'w'), indent=1)
        print('imported', d)

main()
