"""Import a sub-agent's deliverables (/tmp/out_<pid>/{patch,demo,notes}<k>) into /verif/seeded/<pid>-<k>/."""
import json
import os
import shutil
import sys

def main():
    pid = sys.argv[1]
    src = f'/tmp/out_{pid}'
    for k in (1, 2):
        if not os.path.exists(f'{src}/patch{k}.diff'):
            continue
        d = f'/verif/seeded/{pid}-{k}'
        os.makedirs(d, exist_ok=True)
        shutil.copy(f'{src}/patch{k}.diff', f'{d}/patch.diff')
        shutil.copy(f'{src}/demo{k}.py', f'{d}/demo.py')
        if os.path.exists(f'{src}/notes{k}.md'):
            shutil.copy(f'{src}/notes{k}.md', f'{d}/notes.md')
        meta_path = f'{d}/meta.json'
        meta = json.load(open(meta_path)) if os.path.exists(meta_path) else {}
        meta.setdefault('id', f'{pid}-{k}')
        meta.setdefault('property', pid)
        meta.setdefault('origin', 'independent sub-agent given only the property text, a private worktree and a neutral emulator driver')
        notes = open(f'{d}/notes.md').read() if os.path.exists(f'{d}/notes.md') else ''
        meta.setdefault('needs_to_manifest', 'see notes.md')
        json.dump(meta, open(meta_path, 'w'), indent=1)
        print('imported', d)

main()
