"""Check runner: shards a check's work items over a fork pool, merges coverage,
writes evidence and replay files, applies the known-findings file, prints
VIOLATION / KNOWN-FINDING lines and sets the exit status.

Exit status: 0 held on everything explored; 1 violation; 2 harness error.
"""
import importlib
import json
import multiprocessing as mp
import os
import sys
import time
import traceback

ROOT = os.path.dirname(os.path.dirname(os.path.abspath(__file__)))
# HV_OUT_DIR redirects evidence and replay files (used when checks are run against a deliberately broken tree,
# so that /verif/evidence always describes the tree the registered commands were run on)
_OUT = os.environ.get('HV_OUT_DIR') or ROOT
EVIDENCE_DIR = os.path.join(_OUT, 'evidence')
REPLAY_DIR = os.path.join(_OUT, 'replays')
FINDINGS_FILE = os.path.join(ROOT, 'known_findings.json')

ASSUMPTIONS = [
    'hv.svm re-states the Sphinx ISA (little-endian, modular word arithmetic, floor div/mod, Turing jump = jump iff '
    'the no-jump future halts); bound to the real ISA by upstream tests/test_codegen.py passing on it (selftest) and '
    'by hand-written golden programs run before every check',
    'the reference model hv.ref re-states the documented language; evaluation-order choices the README leaves open are '
    'adopted from the implementation as listed in DESIGN.md section 4.2',
    'bounded exhaustive enumeration: only the alphabets, depths and sizes listed under coverage.bounds are covered',
]


class HarnessError(Exception):
    pass


def load_check(pid):
    return importlib.import_module(f'hv.checks.{pid.lower()}')


_CHECK = None
_TIER = None


def _work(args):
    idx, item = args
    try:
        res = _CHECK.run_item(item, _TIER)
        res['_idx'] = idx
        for v in res.get('viol', ()):
            v['_item'] = idx
        return res
    except HarnessError as e:
        return {'_idx': idx, '_harness': f'{e}'}
    except Exception:
        return {'_idx': idx, '_harness': traceback.format_exc()}


def merge(total, res):
    for k, v in res.items():
        if k.startswith('_'):
            continue
        if isinstance(v, bool):
            total[k] = total.get(k, False) or v
        elif isinstance(v, (int, float)):
            total[k] = total.get(k, 0) + v
        elif isinstance(v, dict):
            d = total.setdefault(k, {})
            for kk, vv in v.items():
                if isinstance(vv, (int, float)):
                    d[kk] = d.get(kk, 0) + vv
                else:
                    d[kk] = vv
        elif isinstance(v, (set, frozenset)):
            total.setdefault(k, set()).update(v)
        elif isinstance(v, list):
            total.setdefault(k, []).extend(v)
        else:
            total[k] = v


def load_findings():
    try:
        with open(FINDINGS_FILE) as f:
            return json.load(f)
    except FileNotFoundError:
        return []


def run_check(pid, tier, seed=0, jobs=None, only=None):
    global _CHECK, _TIER
    t0 = time.time()
    mod = load_check(pid)
    _CHECK = mod
    _TIER = tier
    # golden self-test of the VM (harness failure, never a violation)
    from . import golden
    try:
        golden.run_all()
    except Exception:
        print('HARNESS ERROR: VM golden self-test failed', file=sys.stderr)
        traceback.print_exc()
        return 2
    items = list(mod.items(tier))
    orig = list(range(len(items)))
    if only is not None:
        orig = list(only)
        items = [items[i] for i in only]
    n = len(items)
    if n == 0:
        print('HARNESS ERROR: no work items', file=sys.stderr)
        return 2
    order = list(range(n))
    rot = seed % n
    order = order[rot:] + order[:rot]
    jobs = jobs or int(os.environ.get('HV_JOBS', '0')) or min(16, os.cpu_count() or 1)
    total = {}
    harness = []
    results = []
    work = [(i, items[i]) for i in order]
    if jobs == 1 or n == 1:
        it = map(_work, work)
        pool = None
    else:
        ctx = mp.get_context('fork')
        pool = ctx.Pool(min(jobs, n))
        chunk = max(1, min(8, n // (jobs * 8)))
        it = pool.imap_unordered(_work, work, chunksize=chunk)
    try:
        for res in it:
            if '_harness' in res:
                harness.append((res['_idx'], res['_harness']))
                continue
            results.append(res)
    finally:
        if pool is not None:
            pool.terminate()
            pool.join()
    if harness:
        print(f'HARNESS ERROR in {len(harness)} work item(s); first:', file=sys.stderr)
        print(f'item {harness[0][0]}: {items[harness[0][0]]!r}\n{harness[0][1]}', file=sys.stderr)
        return 2
    results.sort(key=lambda r: r['_idx'])
    for res in results:
        merge(total, res)
    viols = total.pop('viol', [])
    samples = total.pop('samples', [])
    # ---- known findings
    findings = [f for f in load_findings() if f.get('property') == pid]
    known = [f for f in findings if f.get('kind') == 'known']
    matcher = getattr(mod, 'match_finding', None)
    reported = []
    known_hits = {}
    for v in viols:
        hit = None
        for f in known:
            if matcher is not None and matcher(f, v):
                hit = f
                break
        if hit is not None:
            known_hits.setdefault(hit['id'], [hit, 0])[1] += 1
        else:
            reported.append(v)
    for fid, (f, cnt) in sorted(known_hits.items()):
        print(f"KNOWN-FINDING: property={pid} {f['what']} [{fid}; {cnt} case(s) this run]")
    # ---- replay artefacts
    os.makedirs(REPLAY_DIR, exist_ok=True)
    for fn in os.listdir(REPLAY_DIR):
        if fn.startswith(pid + '-'):
            os.unlink(os.path.join(REPLAY_DIR, fn))
    # confirm each reported violation by re-executing it once (fresh compile, fresh VM)
    confirmed = []
    seen_keys = set()
    for v in reported:
        key = viol_key(v)
        if key in seen_keys:
            continue
        seen_keys.add(key)
        if len(confirmed) >= 25:
            break
        try:
            again = mod.replay(v['case'])
        except Exception:
            again = ['replay raised: ' + traceback.format_exc()]
        if not again:
            # The isolated case does not fail: it may depend on what the compiler did earlier in the same
            # process (state leaking between compilations).  Re-execute the whole work item, which is a
            # deterministic sequence, in a fresh interpreter; the violation counts only if it recurs there.
            if '_item' in v and _item_recurs(pid, tier, orig[v['_item']], key):
                v = dict(v)
                v['_item'] = orig[v['_item']]
                v['case'] = {'kind': '_item', 'tier': tier, 'item': v['_item'], 'key': key, 'inner': v['case']}
                v['msg'] = f"{v.get('msg')} [history-dependent: fails only after the earlier compilations of work item {v['_item']}]"
            else:
                print(f'HARNESS ERROR: violation did not reproduce on replay: {v.get("msg")}', file=sys.stderr)
                return 2
        confirmed.append(v)
    for i, v in enumerate(confirmed):
        path = os.path.join(REPLAY_DIR, f'{pid}-{i}.json')
        with open(path, 'w') as f:
            json.dump({'property': pid, 'msg': v.get('msg'), 'case': _jsonable(v['case']), 'tier': tier, 'seed': seed}, f, indent=1, default=str)
        print(f'VIOLATION property={pid} replay={path}')
        print(f'  {v.get("msg")}')
    # ---- evidence
    cov = mod.coverage(total, tier) if hasattr(mod, 'coverage') else dict(total)
    cov = _jsonable(cov)
    cov.setdefault('samples', [])
    if samples and not cov['samples']:
        step = max(1, len(samples) // 4)
        cov['samples'] = _jsonable(samples[::step][:5])
    if not cov['samples']:
        cov['samples'] = [{'work_item': _jsonable(items[order[0]])}, {'work_item': _jsonable(items[order[-1]])}]
    cov['work_items'] = n
    cov['known_finding_cases'] = sum(c for _, c in known_hits.values())
    vac = mod.vacuity(total, tier) if hasattr(mod, 'vacuity') else None
    wall = time.time() - t0
    ev = {
        'property_id': pid, 'tier': tier, 'seed': seed, 'level': mod.LEVEL,
        'coverage': cov, 'assumptions': ASSUMPTIONS + list(getattr(mod, 'ASSUMPTIONS', [])),
        'wall_s': round(wall, 2), 'violations': len(confirmed),
    }
    os.makedirs(EVIDENCE_DIR, exist_ok=True)
    with open(os.path.join(EVIDENCE_DIR, f'{pid}.json'), 'w') as f:
        json.dump(ev, f, indent=1, default=str)
        f.write('\n')
    if vac:
        print(f'HARNESS ERROR: vacuous run: {vac}', file=sys.stderr)
        return 2
    brief = {k: v for k, v in cov.items() if isinstance(v, (int, float, bool))}
    print(f'{pid} {tier}: {"VIOLATED" if confirmed else "held"} in {wall:.1f}s; ' + ' '.join(f'{k}={v}' for k, v in sorted(brief.items())))
    return 1 if confirmed else 0


def viol_key(v):
    return v.get('key') or json.dumps(v.get('case'), sort_keys=True, default=str)


def run_one_item(pid, tier, idx):
    """Violations of one work item, executed in this process (used from a fresh interpreter)."""
    mod = load_check(pid)
    items = list(mod.items(tier))
    res = mod.run_item(items[idx], tier)
    return res.get('viol', [])


def _item_recurs(pid, tier, idx, key):
    import subprocess
    p = subprocess.run([sys.executable, '-m', 'hv.replay', '--item', pid, tier, str(idx)], cwd=ROOT,
                       stdout=subprocess.PIPE, stderr=subprocess.PIPE, timeout=7200)
    try:
        keys = json.loads(p.stdout.decode().strip().splitlines()[-1])
    except Exception:
        return False
    return key in keys


def _jsonable(x):
    if isinstance(x, dict):
        return {str(k): _jsonable(v) for k, v in x.items()}
    if isinstance(x, (set, frozenset)):
        return sorted((_jsonable(v) for v in x), key=str)
    if isinstance(x, (list, tuple)):
        return [_jsonable(v) for v in x]
    if isinstance(x, bytes):
        return x.decode('latin1')
    return x
