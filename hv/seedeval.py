"""Evaluate a seeded change (a patch that is meant to break a property) against the checks.

    python -m hv.seedeval /verif/seeded/<id> [--checks C01,C04] [--tier quick] [--inplace] [--all-if-missed]

Steps: (1) validation in a scratch worktree: the patch applies, the 45 pinned tests still pass,
the demonstration fails with the patch and passes without it; (2) the chosen checks are run
against the patched tree -- either `/repo` itself (`--inplace`: git apply, run, git checkout -- .)
or a scratch worktree selected with HV_REPO; (3) results are written to <dir>/meta.json.
"""
import argparse
import json
import os
import shutil
import subprocess
import sys
import time

PY = '/venv/bin/python'
TESTS = ['tests/test_lexer.py', 'tests/test_parser.py', 'tests/test_typecheck.py']
ALL = [f'C{n:02d}' for n in range(1, 19)]


def sh(cmd, cwd=None, env=None, timeout=3600):
    p = subprocess.run(cmd, cwd=cwd, env=env, stdout=subprocess.PIPE, stderr=subprocess.STDOUT, timeout=timeout)
    return p.returncode, p.stdout.decode('utf-8', 'replace')


def make_worktree(path):
    if os.path.exists(path):
        sh(['git', '-C', '/repo', 'worktree', 'remove', '--force', path])
    rc, out = sh(['git', '-C', '/repo', 'worktree', 'add', '-q', '--detach', path, 'HEAD'])
    if rc:
        raise RuntimeError(out)


def remove_worktree(path):
    sh(['git', '-C', '/repo', 'worktree', 'remove', '--force', path])
    shutil.rmtree(path, ignore_errors=True)
    sh(['git', '-C', '/repo', 'worktree', 'prune'])


def ensure_tools():
    """The demonstrations import the neutral emulator driver from /tmp/hid_emu (where the sub-agents had it);
    a copy is kept in /verif/seeded/_tools and put back there when missing."""
    if not os.path.exists('/tmp/hid_emu/run_hid.py'):
        import shutil
        shutil.copytree(os.path.join(os.path.dirname(os.path.dirname(os.path.abspath(__file__))), 'seeded', '_tools', 'hid_emu'), '/tmp/hid_emu', dirs_exist_ok=True)


def validate(d, wt):
    ensure_tools()
    res = {}
    patch = os.path.join(d, 'patch.diff')
    demo = os.path.join(d, 'demo.py')
    rc, out = sh([PY, demo, wt], cwd=d)
    res['demo_on_clean_tree'] = 'passes' if rc == 0 else f'FAILS ({out[-300:]})'
    rc, out = sh(['git', '-C', wt, 'apply', patch])
    if rc:
        res['apply'] = f'FAILED: {out}'
        return res, False
    res['apply'] = 'ok'
    env = dict(os.environ)
    env['PYTHONPATH'] = wt
    rc, out = sh([PY, '-m', 'pytest', '-q', '-p', 'no:cacheprovider'] + TESTS, cwd=wt, env=env)
    res['pinned_tests_with_change'] = out.strip().splitlines()[-1] if out.strip() else f'rc={rc}'
    tests_ok = rc == 0 and '45 passed' in out
    rc, out = sh([PY, demo, wt], cwd=d)
    res['demo_with_change'] = f'fails as intended: {out.strip().splitlines()[-1][:200] if out.strip() else rc}' if rc != 0 else 'PASSES (change not demonstrated)'
    ok = tests_ok and rc != 0 and res['demo_on_clean_tree'] == 'passes'
    return res, ok


def run_checks(checks, tier, env):
    out = {}
    for c in checks:
        t = time.time()
        rc, txt = sh([PY, '-m', 'hv.check', c, '--tier', tier], cwd='/verif', env=env, timeout=7200)
        first = ''
        lines = txt.splitlines()
        for i, l in enumerate(lines):
            if l.startswith('VIOLATION'):
                first = lines[i + 1].strip()[:400] if i + 1 < len(lines) else ''
                break
        nviol = sum(1 for l in lines if l.startswith('VIOLATION'))
        out[c] = {'exit': rc, 'violations_reported': nviol, 'first': first, 'wall_s': round(time.time() - t, 1)}
        if rc == 2:
            out[c]['harness_error'] = '\n'.join(lines[-6:])[:600]
        print(f'  {c}: exit {rc} ({nviol} violations) {first[:150]}', flush=True)
    return out


def main():
    ap = argparse.ArgumentParser()
    ap.add_argument('dir')
    ap.add_argument('--checks', default=None)
    ap.add_argument('--tier', default='quick')
    ap.add_argument('--inplace', action='store_true')
    ap.add_argument('--all-if-missed', action='store_true')
    ap.add_argument('--wt', default='/tmp/hv_seed_wt')
    a = ap.parse_args()
    d = os.path.abspath(a.dir)
    meta_path = os.path.join(d, 'meta.json')
    meta = json.load(open(meta_path)) if os.path.exists(meta_path) else {}
    target = meta.get('property')
    checks = a.checks.split(',') if a.checks else ([target] if target else ALL)
    wt = a.wt + ('_' + os.path.basename(d))
    make_worktree(wt)
    try:
        val, ok = validate(d, wt)
        meta['validation'] = val
        meta['valid'] = ok
        print(f'{os.path.basename(d)}: validation {"ok" if ok else "NOT ok"}: {val}', flush=True)
        if ok:
            env = dict(os.environ)
            env['HV_OUT_DIR'] = wt + '_out'
            if a.inplace:
                sh(['git', '-C', wt, 'checkout', '--', '.'])
                rc, out = sh(['git', '-C', '/repo', 'apply', os.path.join(d, 'patch.diff')])
                if rc:
                    raise RuntimeError(out)
                mode = 'patch applied to /repo (git apply), checks run, git checkout -- .'
            else:
                env['HV_REPO'] = wt
                mode = f'patch applied to a scratch worktree selected with HV_REPO'
            try:
                res = run_checks(checks, a.tier, env)
                if a.all_if_missed and not any(r['exit'] == 1 for r in res.values()):
                    res.update(run_checks([c for c in ALL if c not in res], a.tier, env))
            finally:
                if a.inplace:
                    sh(['git', '-C', '/repo', 'checkout', '--', '.'])
            runs = meta.setdefault('check_runs', {})
            runs[a.tier] = dict(runs.get(a.tier, {}), **res)
            meta['how_checks_were_run'] = mode
            meta['detected_by'] = sorted(c for t in runs.values() for c, r in t.items() if r['exit'] == 1)
            meta['missed_by'] = sorted(set(c for t in runs.values() for c, r in t.items() if r['exit'] == 0) - set(meta['detected_by']))
    finally:
        remove_worktree(wt)
        import shutil
        shutil.rmtree(wt + '_out', ignore_errors=True)
    with open(meta_path, 'w') as f:
        json.dump(meta, f, indent=1)
        f.write('\n')


if __name__ == '__main__':
    main()
