"""C10 -- the compiler is total: every input yields assembly or a located diagnostic.
Deviation-bounded exploration: every seed program with every single token-level edit (delete,
duplicate, swap neighbours, replace by each token of an alphabet, truncate at every token and
at every character), pairs of edits on the smallest seeds, all short token strings and
character strings over small alphabets, literal boundary classes, and a grid of command-line
invocations.  Oracles: only CompilerError subclasses escape; the diagnostic renders and every
position lies inside the source; on failure the CLI exits non-zero and leaves no output
file; on success it exits zero and the strict assembler accepts the file."""
import itertools
import os
import shutil
import subprocess
import sys
import tempfile

from ..cases import Stats
from .. import hid, svm
from ..ref import lexer as rlex
from . import c12

LEVEL = 'exploration'

from hidc.lexer import SourceCode, Span, Cursor      # noqa: E402
from hidc.parser import parse                         # noqa: E402
from hidc.ast import Environment                      # noqa: E402
from hidc.codegen import CodeGen                      # noqa: E402
from hidc.errors import CompilerError                 # noqa: E402

ALPHABET = ['(', ')', '{', '}', '[', ']', ';', ',', '.', '=', '+', '-', '*', '/', '%', '==', '!=', '<', '>', '<=', '>=', '+=', '??',
            'if', 'else', 'while', 'for', 'try', 'undo', 'stop', 'preempt', 'return', 'break', 'continue', 'const', 'is', 'not', 'and', 'or',
            'int', 'byte', 'bool', 'string', 'empty', 'true', 'false', '0', '1', '70000', "'c'", '"s"', 'x', 'length', 'write', '@is_you', '@y', '!d',
            '!is_defeat', 'all_is_win', '[]', 'print', '@print', '!println', 'println', '@write', 'preempt {', '0 -']
SMALL_ALPHABET = ['(', ')', '{', '}', ';', '=', '??', 'if', 'try', 'undo', 'int', 'x', '1', '@is_you', '!d', 'preempt', 'return', '[', ']', ',', 'is', '-', 'while', 'empty']
CHARS = list('ab01 _@!\'"\\/+-=<>?;,.(){}[]%*\n\t#x') + ['é', '\x00', '\r']


def dummy_argv(lines):
    for l in lines:
        if l.startswith(b'%argv'):
            out = []
            for spec in l.split()[1:]:
                if spec.startswith(b'<'):
                    out.append('0')
            return out
    return []


def pipeline(text, W=2, S=64, unchecked=False, lint=False):
    """-> ('ok', nlines) | ('diag', classname) | ('bad', message)"""
    try:
        src = SourceCode.from_string(text)
    except Exception as e:
        return 'bad', f'SourceCode.from_string raised {type(e).__name__}: {e}'
    try:
        env = Environment.empty(unreachable_error=lint, word_size=W)
        parse(src).evaluate(env)
        lines = list(CodeGen(env, W, S, unchecked).gen_lines())
    except CompilerError as e:
        try:
            info = e.get_info(src)
        except Exception as e2:
            return 'bad', f'diagnostic {type(e).__name__}({e}) cannot be rendered: {type(e2).__name__}: {e2}'
        if not isinstance(info, str) or str(e) not in info:
            return 'bad', 'rendered diagnostic does not contain the message'
        # the position printed in the header (file:LINE:COL: message) must itself lie inside the source
        import re as _re
        mhead = _re.match(r'^[^\n]*?:(\d+):(\d+): ', info)
        if mhead and src.lines:
            ln, cl = int(mhead.group(1)), int(mhead.group(2))
            if not (1 <= ln <= len(src.lines) and 1 <= cl <= len(src.lines[ln - 1]) + 1):
                return 'bad', f'rendered diagnostic names position {ln}:{cl}, which is outside the source ({len(src.lines)} lines)'
        nl = len(src.lines)
        for sp in e.context:
            for cur in (sp.start, sp.end):
                if not (0 <= cur.line < nl and 0 <= cur.col <= len(src.lines[cur.line])):
                    return 'bad', f'diagnostic {type(e).__name__}({e}) has position {cur} outside the source ({nl} lines)'
        return 'diag', type(e).__name__
    except RecursionError:
        return 'bad', 'RecursionError on an input of small nesting depth'
    except Exception as e:
        import traceback
        tb = traceback.extract_tb(e.__traceback__)[-1]
        return 'bad', f'internal {type(e).__name__}: {e} at {os.path.basename(tb.filename)}:{tb.lineno}'
    try:
        svm.assemble(lines, dummy_argv(lines), strict_header=True)
    except svm.AsmLimit:
        return 'ok', len(lines)
    except svm.AsmError as e:
        return 'bad', f'accepted program emits assembly the assembler rejects: {e}'
    return 'ok', len(lines)


def check_text(st, text, what, **kw):
    st.add('evaluations')
    r = pipeline(text, **kw)
    if r[0] == 'bad':
        st.viol(f'{what}: {r[1]}', {'kind': 'text', 'text': text, 'kw': kw}, key=r[1][:80])
    elif r[0] == 'ok':
        st.add('accepted')
    else:
        st.add('diagnosed')
        st.count('diagnostics', r[1])


def token_texts(text):
    toks = rlex.tokenize(text)
    lines = text.split('\n')
    return [lines[t[2][0]][t[2][1]:t[3][1]] for t in toks]


def seeds(tier):
    sd = c12.layout_seeds()
    small = [(n, s) for n, s in sd if len(s) < 1500]
    rest = [(n, s) for n, s in sd if len(s) >= 1500]
    extra = [(f'mini{k}', m) for k, m in enumerate(MINI)]
    if tier == 'quick':
        return extra + small[:5] + rest[:1]
    # thorough: every seed except the three largest generated batch programs (the cost of the edit family grows with the square
    # of the seed length, and those batches repeat one function shape twenty times)
    return extra + [(n, s) for n, s in sd if len(token_texts(s)) <= 1300]


def items(tier):
    out = []
    i = 0
    sd = seeds(tier)
    for k in range(len(sd)):
        ntok = len(token_texts(sd[k][1]))
        for lo in range(0, ntok, 25):
            out.append((i, 'edit', k, lo, lo + 25))
            i += 1
    for k in range(min(4, len(sd))):
        out.append((i, 'edit2', k))
        i += 1
    n = 4 if tier == 'thorough' else 3
    for t in SMALL_ALPHABET:
        out.append((i, 'tokstr', t, n))
        i += 1
    for c in CHARS:
        out.append((i, 'charstr', c))
        i += 1
    out.append((i, 'literals'))
    i += 1
    grid = cli_grid(tier)
    for lo in range(0, len(grid), 12):
        out.append((i, 'cli', lo, lo + 12))
        i += 1
    out.append((i, 'clifiles'))
    i += 1
    return out


MINI = ['empty !note(int k) { preempt { write(k); } } empty @is_you(int x) { try { !note(x); !truth_is_defeat(x == 1); } undo { write(0); } }',
        'int n = 0; empty !c(int k) { for (int i = 0; i < k; !truth_is_defeat(i == 3)) { i += 1; } } empty @is_you(int x) { try { !c(x); } undo { } }',
        'empty @is_you() { write(1); }',
        'int g = 1; int f(int a) { return a + g; } empty @is_you(int x) { try { !truth_is_defeat(f(x) == 2); } undo { write("u"); } }',
        'empty !d(int[] a) { preempt { return; } a[0] = 1; } empty @is_you(const string[] v) { int n[v.length]; try { !d(n); } stop { } write(n[0] ?? 0); }',
        # every builtin, reachable or not
        'empty never() { all_is_broken(); } empty @is_you(int x) { if (x == 1) { all_is_broken(); } if (x == 2) { all_is_win(); } sleep(x); debug(); progress(); writeln(); '
        'try { !truth_is_defeat(x == 3); !is_defeat(); } undo { } if (x == 4) { never(); } write(x / 2); int a[x]; write(a.length); }']


def run_item(item, tier):
    st = Stats()
    kind = item[1]
    if kind == 'edit':
        name, text = seeds(tier)[item[2]]
        parts = token_texts(text)
        alpha = ALPHABET if tier == 'thorough' else ALPHABET[::4]
        stride = 1 if (tier == 'thorough' or len(parts) < 120) else 3
        join = ' '.join
        lo, hi = item[3], item[4]
        if lo == 0:
            check_text(st, join(parts), f'{name} re-joined')
        for p in range(lo, min(hi, len(parts)), stride):
            check_text(st, join(parts[:p] + parts[p + 1:]), f'{name}: token {p} deleted')
            check_text(st, join(parts[:p + 1] + parts[p:]), f'{name}: token {p} duplicated')
            if p + 1 < len(parts):
                check_text(st, join(parts[:p] + [parts[p + 1], parts[p]] + parts[p + 2:]), f'{name}: tokens {p},{p + 1} swapped')
            check_text(st, join(parts[:p]), f'{name}: truncated before token {p}')
            for a in alpha:
                if a != parts[p]:
                    check_text(st, join(parts[:p] + [a] + parts[p + 1:]), f'{name}: token {p} replaced by {a}')
                    check_text(st, join(parts[:p] + [a] + parts[p:]), f'{name}: {a} inserted before token {p}')
        step = 1 if len(text) < 800 else 7
        if lo == 0:
            for c in range(0, len(text), step):
                check_text(st, text[:c], f'{name}: truncated at character {c}')
        st.sample({'seed': name, 'tokens': len(parts), 'edits': 'delete/duplicate/swap/truncate/replace/insert at each position'})
    elif kind == 'edit2':
        text = MINI[item[2] % len(MINI)]
        parts = token_texts(text)
        alpha = ['(', ')', '{', '}', ';', '??', 'try', '@is_you', '!d', 'x', '1', 'int', '[', '=']
        n = len(parts)
        for p in range(n):
            for q in range(p + 1, n):
                check_text(st, ' '.join(parts[:p] + parts[p + 1:q] + parts[q + 1:]), 'two tokens deleted')
                if tier == 'thorough' or (p + q) % 3 == 0:
                    for a in alpha[::2]:
                        check_text(st, ' '.join(parts[:p] + [a] + parts[p + 1:q] + parts[q + 1:]), f'token {p} replaced by {a}, token {q} deleted')
                        check_text(st, ' '.join(parts[:p] + parts[p + 1:q] + [a] + parts[q + 1:]), f'token {p} deleted, token {q} replaced by {a}')
        st.sample({'two_edit_seed': text})
    elif kind == 'tokstr':
        first, n = item[2], item[3]
        check_text(st, first, 'token string')
        cur = [[first]]
        for _ in range(n - 1):
            cur = [s + [t] for s in cur for t in SMALL_ALPHABET]
            for s in cur:
                check_text(st, ' '.join(s), 'token string')
        st.sample({'token_strings_starting_with': first, 'max_length': n})
    elif kind == 'charstr':
        c = item[2]
        for a in [''] + CHARS:
            for b in [''] + CHARS:
                check_text(st, c + a + b, 'character string')
                check_text(st, 'empty @is_you() { ' + c + a + b + ' }', 'character string in a function body')
    elif kind == 'literals':
        for base, digit in (('', '7'), ('0x', 'f'), ('0o', '7'), ('0b', '1'), ('', '0')):
            for n in list(range(1, 40)) + [100, 1000, 4299, 4300, 4301, 5000]:
                check_text(st, f'int g = {base}{digit * n}; empty @is_you() {{ write(g); }}', f'{n}-digit literal in base {base or "10"}')
                check_text(st, f'empty @is_you() {{ write({base}{digit * n} % 7); }}', f'{n}-digit literal in an expression')
        for n in range(1, 21):
            for d in ('1', 'f', '0'):
                check_text(st, 'empty @is_you() { write("\\u{' + d * n + '}"); }', f'unicode escape with {n} digits')
        for b in range(256):
            ch = chr(b)
            check_text(st, f'empty @is_you() {{ write("{ch}"); }}', f'raw character {b} in a string')
            check_text(st, f'empty @is_you() {{ write(1); }} {ch}', f'raw character {b} at top level')
            check_text(st, f'// {ch}\nempty @is_you() {{ }}', f'raw character {b} in a comment')
        for text in ('', '\n', '\n\n\n', ' ', '//', '// only a comment', 'empty @is_you() { }', 'empty @is_you() { }\r\n', '\r\nempty @is_you() { }\r\n',
                     'empty @is_you() {\r\n write(1);\r\n}', '﻿empty @is_you() { }', 'empty @is_you() { } //', 'empty @is_you() { }\x1a'):
            check_text(st, text, 'file-shape case')
        # arrays with constant lengths (global and local, used and unused): negative, zero, huge, wrapping
        lens = ['-32769', '-32768', '-3', '-1', '0 - 1', '2 - 6', '0', '1', '2', '32767', '32768', '40000', '65535', '65536', '65537', '2147483648', 'N', 'N * 2']
        for el in ('int', 'byte', 'bool', 'string'):
            for ln in lens:
                for W in (2, 4):
                    pre = 'const int N = 2 - 6;\n'
                    check_text(st, pre + f'{el} a[{ln}];\nempty @is_you() {{ write(a.length); }}', f'global {el} array of length {ln} (used)', W=W)
                    check_text(st, pre + f'{el} a[{ln}];\nempty @is_you() {{ }}', f'global {el} array of length {ln} (unused)', W=W)
                    check_text(st, pre + f'empty @is_you() {{ {el} a[{ln}]; write(a.length); }}', f'local {el} array of length {ln}', W=W)
                    check_text(st, pre + f'{el}[] a = [];\n{el} b[{ln}];\nempty @is_you() {{ write(a.length + b.length); }}', f'global {el} arrays, empty literal + length {ln}', W=W)
        # array literals with explicit casts in every role (they keep the const flexibility of literals)
        for t, lit_ in (('int', '[1, 2]'), ('byte', "['a', 'b']"), ('byte', '[1, 2]'), ('bool', '[true, false]'), ('int', '[1, x]'), ('byte', "[x is byte, 'q']")):
            for use in ('{t}[] a = {l} is {t}[]; a[0] = a[1]; write(a.length);', 'const {t}[] a = {l} is {t}[]; write(a.length);', 'g({l} is {t}[]);', 'h({l} is {t}[]);',
                        '{t}[] a = {l} is {t}[]; g(a); h(a);', 'write(({l} is {t}[]).length);', '{t}[] a = {l}; g(a); h(a); a[1] = a[0];'):
                src = f'empty g({t}[] p) {{ p[0] = p[1]; }} empty h(const {t}[] p) {{ write(p.length); }} empty @is_you(int x) {{ ' + use.format(t=t, l=lit_) + ' }'
                check_text(st, src, f'array literal {lit_} cast to {t}[] used as {use[:24]}')
        # every operator over operands of every kind -- including calls that return nothing -- in statement and value positions:
        # whatever the typechecker lets through, code generation must cope with
        pool = ['nop()', 'writeln()', 'debug()', 'fi()', '"s"', '[1]', 'true', 'x', "'c'", '[]', '[x > 0, true, false]', "[x is byte, 'q']", '[x, 2]', '["s", "t"]']
        pre = 'empty nop() { } int fi() { return 1; }\n'
        for op in ('??', '+', '==', 'and', '<', '%'):
            for a in pool:
                for b in pool:
                    e = f'{a} {op} {b}'
                    for form in ('{e};', 'write({e});', 'int v = {e};', 'if ({e}) {{ }}', 'x = ({e}) is int;', 'return {e};', 'int q[{e}];'):
                        check_text(st, pre + 'empty @is_you(int x) { ' + form.format(e=e) + ' }', f'operator {op} over {a}, {b} as {form}')
        for a in pool:
            for form in ('-{a};', 'not {a};', '+{a};', '{a} is int;', '{a} is bool;', '{a} is byte[];', '({a})[0];', 'write(({a})[x]);', 'if (({a})[1]) {{ }}', '({a})[0] = ({a})[1];', '({a}).length;', 'write({a});', 'write(({a}) is bool);', 'nop2({a});',
                         'int v = {a};', 'while ({a}) {{ break; }}', '!truth_is_defeat({a});', 'sleep({a});', 'x += {a};', 'return {a};'):
                check_text(st, pre + 'empty nop2(int k) { } empty @is_you(int x) { try { ' + form.format(a=a) + ' } undo { } }', f'{form} with {a}')
                check_text(st, pre + 'empty nop2(int k) { } empty @is_you(int x) { ' + form.format(a=a) + ' }', f'{form} with {a}')
        # one base name in all three flavours, with overloads and several storage classes of an array parameter: labels stay distinct
        same = ('const int[] CG = [1, 2];\nint[] MG = [3];\n'
                'int f(int a) { return a + 1; } int f(const int[] a) { return a.length; } int f(int[] a, int b) { a[0] += b; return a[0]; }\n'
                'int @f(int a) { return f(a) * 2; } int @f(const int[] a) { return f(a) + 10; }\n'
                'int !f(int a) { !truth_is_defeat(a == 0); return a; } int !f(const int[] a) { !truth_is_defeat(a.length == 0); return a[0]; }\n'
                'empty @is_you(int x) { int[] loc = [x, 5]; write(f(x)); write(f(CG)); write(f(loc)); write(f(MG)); write(f([x])); write(f(loc, 2)); write(f(MG, 1));\n'
                'write(@f(x)); write(@f(CG)); write(@f(loc)); try { write(!f(x)); write(!f(loc)); write(!f(CG)); } undo { write(0); } }')
        for W in (2, 3):
            check_text(st, same, 'one base name in three flavours with overloads and storage classes', W=W)
            check_text(st, same.replace('int @f(int a)', 'int @g(int a)'), 'one base name in two flavours', W=W)
        # undefined / misspelt calls in every flavour (the compiler offers hints for some of them)
        for name in ('print', 'println', 'printx', 'writ', 'write', 'writeln', 'sleep', 'is_defeat', 'truth_is_defeat', 'all_is_win', 'debug', 'length'):
            for fl in ('', '@', '!'):
                for args in ('', '1', '"s"', '1, 2', 'true', '[1]'):
                    call = f'{fl}{name}({args});'
                    check_text(st, f'empty @is_you() {{ {call} }}', f'call {call} in a you-function')
                    check_text(st, f'empty @is_you() {{ try {{ {call} }} undo {{ }} }}', f'call {call} in a try body')
                    check_text(st, f'empty !d() {{ {call} }} empty @is_you() {{ }}', f'call {call} in a defeat function')
                    check_text(st, f'empty {fl}{name}(int a) {{ }} empty @is_you() {{ try {{ {call} }} undo {{ {call} }} }}', f'call {call} with a user definition of the name')
        for W in (2, 3, 8, 16, 64):
            for S in (0, 1, 2, 500, 10 ** 6, 10 ** 9, 10 ** 30):
                for text in MINI:
                    check_text(st, text, f'options W={W} S={S}', W=W, S=S)
                    check_text(st, text, f'options W={W} S={S} --unchecked', W=W, S=S, unchecked=True)
        for W in (0, 1, -1):
            check_text(st, MINI[0], f'options W={W}', W=W)
        for S in (-1, -500):
            check_text(st, MINI[0], f'options S={S}', S=S)
    elif kind == 'cli':
        grid = cli_grid(tier)[item[2]:item[3]]
        d = tempfile.mkdtemp(prefix='hv_c10_')
        try:
            for k, g in enumerate(grid):
                cli_case(st, d, k, *g)
        finally:
            shutil.rmtree(d, ignore_errors=True)
        st.sample({'cli': [str(x) for x in grid[0]]})
    elif kind == 'clifiles':
        d = tempfile.mkdtemp(prefix='hv_c10_')
        try:
            cli_files(st, d)
        finally:
            shutil.rmtree(d, ignore_errors=True)
    return st


CLI_PROGS = {
    'ok': 'empty @is_you(int x) { writeln(x + 1); }\n',
    'ok_big': 'int[] g = [1, 2, 3];\nempty @is_you(const string[] a) { for (int i = 0; i < a.length; i += 1) { writeln(a[i]); } write(g[1] ?? 0); }\n',
    'ok_const': 'const int K = 30000 + 30000;\nint g = 65536 + 7;\nempty @is_you() { writeln((30000 + 30000) / 2); writeln(0 == 65536); writeln(K / 3); writeln(g); writeln(-32768 < 0); writeln((255 + 1) is byte is int); }\n',
    'lex': 'empty @is_you() { write("unterminated); }\n',
    'parse': 'empty @is_you() { write(1) }\n',
    'type': 'empty @is_you() { int x = "s"; }\n',
    'codegen': 'empty f() { }\n',
    'codegen2': 'int g = f();\nint f() { return 1; }\nempty @is_you() { write(g); }\n',
    'lint': 'empty @is_you() { return; write(1); }\n',
    # diagnostics raised while function bodies are generated (the output file may already have been opened by then)
    'codegen3': 'int n = 3;\nint[] arr = [n + n, 2];\nint m = arr.length;\nempty @is_you() {\n    writeln(m);\n}\n',
    'codegen4': 'int big[40000];\nempty shown() { writeln(big.length); }\nempty @is_you() {\n    shown();\n}\n',
    'codegen5': 'empty @is_you(string[] names) { }\n',
    'codegen6': 'empty @is_you(bool flag) { }\n',
    'codegen7': 'empty @is_you(int[] a, int[] b) { }\n',
    'codegen8': 'int @is_you() { return 1; }\n',
    'codegen9': 'empty @is_you() { }\nempty @is_you(int x) { }\n',
}


def cli_grid(tier):
    ms = [-8, 0, 8, 12, 16, 24, 64]
    ss = [-1, 0, 1, 500, 10 ** 9]
    out = []
    for prog in CLI_PROGS:
        for m in ms:
            for s in ss:
                for unchecked in (False, True):
                    for lint_ in (False, True):
                        for oflag in (True, False):
                            out.append((prog, m, s, unchecked, lint_, oflag))
    if tier == 'quick':
        out = out[::9]
        # every program with sane options, so that each diagnostic class is reached (not masked by an option error)
        for prog in CLI_PROGS:
            for m, s_, oflag in ((16, 500, True), (24, 500, False), (64, 1, True)):
                if (prog, m, s_, False, False, oflag) not in out:
                    out.append((prog, m, s_, False, False, oflag))
    return out


def run_cli(args, cwd):
    env = dict(os.environ)
    env['PYTHONPATH'] = hid.REPO
    return subprocess.run([sys.executable, '-m', 'hidc'] + args, cwd=cwd, env=env, stdout=subprocess.PIPE, stderr=subprocess.PIPE, timeout=120)


def cli_case(st, d, k, prog, m, s, unchecked, lint_, oflag):
    st.add('evaluations')
    src = os.path.join(d, f'p{k}.hid')
    with open(src, 'w') as f:
        f.write(CLI_PROGS[prog])
    out = os.path.join(d, f'o{k}.s') if oflag else src + '.s'
    args = [src, f'-m{m}', f'-s{s}']
    if oflag:
        args += ['-o', out]
    if unchecked:
        args.append('--unchecked')
    if lint_:
        args.append('--lint')
    p = run_cli(args, d)
    case = {'kind': 'cli', 'prog': prog, 'args': args[1:], 'm': m, 's': s, 'unchecked': unchecked, 'lint': lint_, 'oflag': oflag}
    err = p.stderr.decode('utf-8', 'replace')
    what = f'hidc {" ".join(args[1:])} on a program that is {prog}'
    if 'Traceback (most recent call last)' in err:
        st.viol(f'{what}: internal exception: {err.strip().splitlines()[-1]}', case, key='tb:' + err.strip().splitlines()[-1][:60])
    elif p.returncode == 0:
        expect_fail = prog in ('lex', 'parse', 'type', 'codegen', 'codegen2') or (prog == 'lint' and lint_)
        if expect_fail:
            st.viol(f'{what}: exit status 0 for a program that must be rejected', case)
        elif not os.path.exists(out):
            st.viol(f'{what}: exit status 0 but no output file', case)
        else:
            data = open(out, 'rb').read()
            lines = data.split(b'\n')
            try:
                svm.assemble(lines, dummy_argv(lines), strict_header=True)
                st.add('accepted')
            except svm.AsmLimit:
                st.add('accepted')
            except svm.AsmError as e:
                st.viol(f'{what}: exit status 0 but the assembler rejects the output: {e}', case, key=f'asm:{str(e)[:40]}')
            # driver parity (completeness oracle): the file must contain exactly the code the library pipeline produces for the same options
            try:
                api = b''.join(l + b'\n' for l in hid.compile_lines(CLI_PROGS[prog], m // 8, s, unchecked, lint_))
            except Exception as e:
                api = f'{type(e).__name__}: {e}'.encode()
            def _code(b):
                # instructions, directives and labels only: comments and blank lines are not part of the comparison
                return [l.split(b';')[0].rstrip() if b'"' not in l and b"'" not in l else l.rstrip() for l in b.split(b'\n') if l.split(b';')[0].strip()]
            if _code(api) != _code(data):
                st.viol(f'{what}: the file written by the command-line driver differs from the output of parse/evaluate/CodeGen for the same options', case, key='parity')
            else:
                st.add('driver_parity')
    else:
        if os.path.exists(out):
            st.viol(f'{what}: exit status {p.returncode} but an output file was left behind', case)
        elif not err.strip():
            st.viol(f'{what}: exit status {p.returncode} without any diagnostic', case)
        else:
            st.add('diagnosed')
    for fn in (src, out):
        if os.path.exists(fn):
            os.unlink(fn)


def cli_files(st, d):
    cases = {
        'latin1.hid': b'empty @is_you() { write("\xe9"); }\n',
        'badutf8.hid': b'// \xff\xfe\nempty @is_you() { }\n',
        'nul.hid': b'empty @is_you() { }\x00\n',
        'crlf.hid': b'empty @is_you() {\r\n  write(1);\r\n}\r\n',
        'cr.hid': b'empty @is_you() { // c\r write(1); }\n',
        'empty.hid': b'',
        'nonl.hid': b'empty @is_you() { }',
        'bom.hid': b'\xef\xbb\xbfempty @is_you() { }\n',
        'utf8.hid': 'empty @is_you() { write("hé世"); }\n'.encode('utf-8'),
        'huge_int.hid': b'int g = ' + b'9' * 5000 + b';\nempty @is_you() { }\n',
    }
    for name, data in cases.items():
        st.add('evaluations')
        path = os.path.join(d, name)
        with open(path, 'wb') as f:
            f.write(data)
        out = path + '.s'
        p = run_cli([path], d)
        err = p.stderr.decode('utf-8', 'replace')
        case = {'kind': 'clifile', 'name': name, 'data': data.decode('latin1')}
        if 'Traceback (most recent call last)' in err:
            st.viol(f'hidc on file {name}: internal exception: {err.strip().splitlines()[-1]}', case, key='tbf:' + err.strip().splitlines()[-1][:60])
        elif p.returncode == 0:
            if not os.path.exists(out):
                st.viol(f'hidc on file {name}: exit 0 without output', case)
            else:
                lines = open(out, 'rb').read().split(b'\n')
                try:
                    svm.assemble(lines, dummy_argv(lines), strict_header=True)
                    st.add('accepted')
                except svm.AsmError as e:
                    st.viol(f'hidc on file {name}: assembler rejects output: {e}', case)
        else:
            if os.path.exists(out):
                st.viol(f'hidc on file {name}: failed but left an output file', case)
            else:
                st.add('diagnosed')
    st.add('evaluations')
    p = run_cli([os.path.join(d, 'does_not_exist.hid')], d)
    if p.returncode == 0 or b'Traceback' in p.stderr:
        st.viol('hidc on a missing file: expected a diagnostic and non-zero exit', {'kind': 'clifile', 'name': 'missing', 'data': ''})
    else:
        st.add('diagnosed')


def coverage(total, tier):
    return {
        'evaluations': total.get('evaluations', 0),
        'distinct_nontrivial': total.get('diagnosed', 0),
        'rule': 'inputs are enumerated exhaustively within the deviation bounds below (0, 1 and 2 token edits of well-formed seeds; all short '
                'token/character strings); non-trivial = the compiler answers with a diagnostic, which must be a located CompilerError that '
                'renders; accepted inputs must assemble',
        'accepted': total.get('accepted', 0), 'diagnosed': total.get('diagnosed', 0),
        'diagnostic_classes': total.get('diagnostics', {}),
        'exhaustive': True,
        'bounds': {
            'single_edits': f'{len(seeds(tier))} seeds; at every token position: delete, duplicate, swap with next, truncate, replace by / insert each of '
                            f'{len(ALPHABET) if tier == "thorough" else len(ALPHABET[::4])} tokens; truncation at every character',
            'double_edits': 'all pairs of deletions and ' + ('all' if tier == 'thorough' else 'a third of') + ' replace+delete pairs on 3 compact seeds',
            'token_strings': f'all strings of <= {4 if tier == "thorough" else 3} tokens over {len(SMALL_ALPHABET)} tokens',
            'character_strings': f'all strings of <= 3 characters over {len(CHARS)} characters, at top level and inside a function body',
            'constant array lengths': 'global (used/unused) and local arrays of every element type with 18 constant length expressions from -32769 to 2^31 and const-variable lengths, W 2,4',
            'operand kinds': '6 binary operators (incl. ??) over all ordered pairs of 14 operand kinds (calls returning nothing, builtins, int call, string, constant and run-time array literals of every element type, bool, variable, char) in 7 '
                             'statement/value positions; 20 unary/cast/index/call forms over the same operands inside and outside a try body',
            'calls': '12 builtin-like names x 3 flavours x 6 argument lists in you-function, try body, defeat function and next to a user definition of the same name',
            'literals': 'integer literals of 1..39, 100, 1000, 4299..4301, 5000 digits in every base; \\u{..} with 1..20 digits; each of the 256 first code points raw '
                        'in a string, at top level and in a comment; empty/CRLF/BOM/no-newline files; word sizes {0,1,-1,2,3,8,16,64} x stack sizes {-500,-1,0,1,2,500,1e6,1e9,1e30}',
            'cli': f'{len(cli_grid(tier))} invocations (successful ones must contain, comments aside, exactly the code the library pipeline produces): 16 programs (ok, lex/parse/type errors, every class of codegen diagnostic, lint) x -m {{-8,0,8,12,16,24,64}} x -s {{-1,0,1,500,1e9}} x '
                   '--unchecked x --lint x -o given/omitted; 11 file-encoding cases',
        },
    }


def vacuity(total, tier):
    if total.get('viol'):
        return None
    if not total.get('diagnosed') or not total.get('accepted'):
        return 'both accepted and diagnosed inputs must occur'
    return None


def replay(case):
    st = Stats()
    k = case['kind']
    if k == 'text':
        check_text(st, case['text'], 'replay', **case.get('kw', {}))
    elif k == 'cli':
        d = tempfile.mkdtemp(prefix='hv_c10_')
        try:
            cli_case(st, d, 0, case['prog'], case['m'], case['s'], case['unchecked'], case['lint'], case['oflag'])
        finally:
            shutil.rmtree(d, ignore_errors=True)
    else:
        d = tempfile.mkdtemp(prefix='hv_c10_')
        try:
            cli_files(st, d)
        finally:
            shutil.rmtree(d, ignore_errors=True)
    return [v['msg'] for v in st.get('viol', [])]
