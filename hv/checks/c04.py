"""C04 -- checked builds are memory safe, even with the stack exactly full.
Family M programs (frames x arrays x callees x element calls x try/stop) are each swept over
every stack size from one word to S_min+8 at several word sizes.  On every explored state
(speculative ones included) the entitlement monitor classifies each load/store by its base
operand and checks it against the live (ap, fp) and the set of live array extents.  Below
S_min the run must end in exactly the stack_overflow error with an uncorrupted output prefix;
from S_min on it must reproduce the reference trace (canary arrays are printed after every
action)."""
import itertools

from ..cases import Stats, stack_sweep, replay_sweep, std_coverage
from ..ref.parser import parse_program

LEVEL = 'model_checking'

PRE = """
int gq = 5;
byte gi = 1;
int gw = 1;
int setg(int v) { gi = v is byte; gw = v; write('s'); return 7; }
int own(int n) { int[] loc = [n, n + 1, n + 2]; return loc[0] + loc[2]; }
int own3(int p, int q, int r) { return p + q + r; }
int two(int v) { int[] p = [v, 1, 2]; int[] q = [3, 4, v]; return q[2]; }
byte twob(int v) { byte[] p = ['p', 'q', 'r']; bool[] o = [true, false, true, true, false, true, false, false, true]; byte[] q = ['x', 'y']; return q[1]; }
int rec(int d) { int[] loc = [d, d]; if (d <= 0) { return loc[1]; } return rec(d - 1) + loc[0]; }
int el(int v) { write('e'); return v; }
bool elb(int v) { write('e'); return v > 1; }
byte ely(int v) { write('e'); return (v + 65) is byte; }
empty !dd(int v) { int[] l = [v, 3]; write('D'); !truth_is_defeat(l[0] >= 0); write('x'); }
empty !d1(int v) { int pad = v; byte[] bb = ['p', 'q']; !dd(pad); write(bb); }
empty use_int(int[] a, int i) { a[i] = 42; write(a[i]); }
empty use_byte(byte[] a, int i) { a[i] = 'U'; write(a[i]); }
empty use_bool(bool[] a, int i) { a[i] = true; write(a[i]); }
empty use_string(string[] a, int i) { a[i] = "U"; write(a[i]); }
"""

SCALARS = ['', 'int s0 = 100;', "int s0 = 100; byte s1 = 'b'; bool s2 = true;"]
SC_DUMP = ['', 'write(s0);', 'write(s0); write(s1); write(s2);']

ELV = {
    'int': (['11', '22', '33'], '7', 'write(a[k]);'),
    'byte': (["'a'", "'b'", "'c'"], "'z'", 'write(a[k]);'),
    'bool': (['true', 'false', 'true', 'true', 'false', 'true', 'false', 'false', 'true', 'true'], 'true', 'write(a[k]);'),
    'string': (['"x"', '"yy"', '"z"'], '"w"', 'write(a[k]);'),
}


def arrays():
    out = [('none', None, '', '')]
    for t, (vals, nv, show) in ELV.items():
        dump = f"for (int k = 0; k < a.length; k += 1) {{ {show} write(','); }}"
        out.append(('lit', t, f'{t}[] a = [{", ".join(vals)}];', dump))
        fill = f'for (int k = 0; k < a.length; k += 1) {{ a[k] = {nv}; }}'
        out.append(('vla', t, f'{t} a[n]; {fill}', dump))
    for t, (vals, nv, show) in ELV.items():
        dump = f"for (int k = 0; k < a.length; k += 1) {{ {show} write(','); }} write(tab[0]); write(tab[1]);"
        fill = f'for (int k = 0; k < a.length; k += 1) {{ a[k] = {nv}; }}'
        # a literal-initialised array is live while a dynamic one is allocated
        out.append(('litvla', t, f'int[] tab = [3, 4]; {t} a[n]; {fill}', dump))
        # the frame was deeper before the array is declared than it is afterwards
        out.append(('deepvla', t, f'write(own3(n, 2, 3)); {t} a[n]; {fill}', dump.replace(' write(tab[0]); write(tab[1]);', '')))
    dumpi = "for (int k = 0; k < a.length; k += 1) { write(a[k]); write(','); }"
    out.append(('litcall', 'int', 'int[] a = [el(1), el(n), el(3)];', dumpi))
    out.append(('litcall', 'bool', 'bool[] a = [elb(1), true, elb(n), elb(3), false, elb(2), true, true, elb(n)];', dumpi))
    out.append(('litcall', 'byte', "byte[] a = [ely(1), 'm', ely(n)];", dumpi))
    # call-free element expressions with deep temporaries (no callee guard follows the temporaries)
    out.append(('littemp', 'int', 'int[] a = [n, n + 1, gq + (gq + (gq + (n * n)))];',
                "for (int k = 0; k < a.length; k += 1) { write((a[k] % 10 + 48) is byte); }"))
    out.append(('littemp', 'byte', "byte[] a = ['a', (gq + (gq + (n * n))) is byte, 'c', (gq + (gq + (gq + (gq + n)))) is byte];",
                "for (int k = 0; k < a.length; k += 1) { write(a[k]); }"))
    out.append(('littemp', 'bool', 'bool[] a = [n > 0, true, gq + (gq + (gq + (n * n))) > 20, false, true, false, true, true, gq + (gq + n) > 9];',
                "for (int k = 0; k < a.length; k += 1) { write((a[k] is byte + 48) is byte); }"))
    return out


ACTIONS = {
    'index': lambda t: {'int': 'a[i] = 5; write(a[i]);', 'byte': "a[i] = 'I'; write(a[i]);", 'bool': 'a[i] = true; write(a[i]);',
                        'string': 'a[i] = "I"; write(a[i]);'}[t],
    'pass': lambda t: f'use_{t}(a, i);',
    'incr': lambda t: 'a[i] += 3; write(a[i]);' if t in ('int', 'byte') else None,
    'own': lambda t: 'write(own(n));',
    'writes': lambda t: "write(n); write('c'); write(n > 0); write(\"str\"); writeln(-n);",
    # a one-byte slot is the deepest point of the frame
    # two (three) array literals alive at once are the deepest point of a callee
    'twolit': lambda t: "write(two(n)); write(twob(n));",
    'writebool': lambda t: "write(n > 0);",
    'bytelocal': lambda t: "byte last = (n + 65) is byte; write(last);",
    'writemin': lambda t: "int mn = 1; while (mn > 0) { mn = mn * 2; } write(mn);",
    'writearr': lambda t: 'write(a);' if t == 'byte' else None,
    'rec': lambda t: 'write(rec(n));',
    'trystop': lambda t: "try { write('t'); !d1(n); write('y'); } stop { write('s'); }",
    'nestlit': lambda t: "int[] inner = [el(n), own(n), 9]; write(inner[1]);",
    'nothing': lambda t: "",
    # the index is a mutable global which the right-hand side reassigns: the checked index is the one that is used
    'gidx': lambda t: {'int': "gi = 1; a[gi] = setg(i); write(a[1]); gw = 1; a[gw] += setg(i); write(a[1]);",
                       'byte': "gi = 1; a[gi] = setg(i) is byte; write(a[1] is int); gi = 1; a[gi] += setg(i) is byte; write(a[1] is int); gw = 1; a[gw] = setg(i) is byte;",
                       'bool': "gi = 1; a[gi] = setg(i) > 3; write(a[1]); gw = 1; a[gw] = setg(i) < 3; write(a[1]);",
                       'string': None}[t],
}
NEEDS_ARRAY = {'index', 'pass', 'incr', 'writearr', 'gidx'}


def programs():
    out = []
    for si, (sc, scd) in enumerate(zip(SCALARS, SC_DUMP)):
        for kind, t, decl, dump in arrays():
            for an, af in ACTIONS.items():
                if kind == 'none' and an in NEEDS_ARRAY:
                    continue
                act = af(t) if t is not None else af('int')
                if act is None:
                    continue
                if kind == 'littemp' and an != 'nothing':
                    continue
                if an == 'nothing' and kind != 'littemp':
                    continue
                if kind in ('litvla', 'deepvla') and (an not in ('index', 'own', 'writes', 'writebool') or si == 1):
                    continue
                if kind != 'none' and si == 1 and an not in ('index', 'writes', 'writemin', 'nothing', 'writebool'):
                    continue        # middle scalar variant only with the two cheapest actions
                body = f"{sc} {decl} write('<'); {act} write('>'); {dump} {scd}"
                src = PRE + f'empty @is_you(int n, int i) {{ {body} }}\n'
                out.append(((si, kind, t, an), src))
    return out


INPUTS_Q = [('3', '1'), ('0', '0'), ('-1', '0'), ('3', '3'), ('9', '40'), ('3', '-1')]
INPUTS_T = INPUTS_Q + [('1', '0'), ('9', '8'), ('2', '255'), ('-8', '1'), ('30000', '0'), ('17', '16')]


def items(tier):
    progs = programs()
    out = []
    i = 0
    inputs = INPUTS_T if tier == 'thorough' else INPUTS_Q
    for pi in range(len(progs)):
        if tier == 'quick' and progs[pi][0][0] == 2 and progs[pi][0][3] in ('rec', 'trystop', 'nestlit', 'twolit', 'writemin', 'incr', 'writearr'):
            continue        # quick: these actions only without and with one extra scalar in the frame
        for W in ((2, 3, 4, 8) if tier == 'thorough' else ((2, 2, 3, 2, 4, 2, 8)[pi % 7],)):
            out.append((i, pi, W, inputs if tier == 'thorough' else inputs[(pi % 2)::2] + (inputs[:1] if pi % 2 else [])))
            i += 1
    # family LENL: a dynamic array as long as a much longer array of narrower elements (only length x element size wraps)
    from ..gen import chain
    for W in (2, 3):
        for k in range(len(chain.lenl_programs(W))):
            out.append((i, 'LENL', W, [k]))
            i += 1
    return out


_PROGS = None


def run_item(item, tier):
    global _PROGS
    if _PROGS is None:
        _PROGS = programs()
    idx, pi, W, inputs = item
    st = Stats()
    if pi == 'LENL':
        from ..gen import chain
        from .c05 import _must_overflow
        sizes = [5, 33, 64, 500] if tier == 'quick' else list(range(1, 70, 4)) + [100, 500, 501, 1000]
        for tag, src in [chain.lenl_programs(W)[inputs[0]]]:
            prog = parse_program(src)
            for S in sizes:
                for i_ in ((3, S - 1) if tier == 'quick' else (0, 3, S - 5, S - 1, S)):
                    _must_overflow(st, src, prog, i_, W, S, f'LENL[{tag}] S={S} i={i_}', early_ok=True)
                    st.add('overflow_runs')
            st.add('cases')
        st.count('family_items', 'LENL')
        st.sample({'family': 'LENL', 'W': W, 'program': chain.lenl_programs(W)[inputs[0]][0], 'stack_sizes': sizes})
        return st
    key, src = _PROGS[pi]
    prog = parse_program(src)
    seen = set()
    for n, i in inputs:
        if (n, i) in seen:
            continue
        seen.add((n, i))
        stack_sweep(st, src, prog, [n, i], W, f'M{list(key)}', above=8)
        st.add('cases')
    st.count('family_items', key[1] + '/' + key[3])
    st.sample({'program_key': list(key), 'W': W, 'inputs': [list(x) for x in inputs][:3], 'source_tail': src[len(PRE):][:300]})
    return st


def coverage(total, tier):
    cov = std_coverage(total, {
        'M': f'{len(programs())} programs = scalar frames (0,1,3 scalars) x arrays (none; literal and VLA of int/byte/bool/string; literals whose '
             'elements are calls) x actions (indexed store/read, compound store, by-reference callee, callee with its own array, every '
             'write overload, write of the most negative integer as the deepest call, recursion, try/stop with defeat two calls deep, nested literal with call elements)',
        'LENL': 'dynamic int/string arrays whose length is the .length of a bool/byte global just long enough for length x element size to wrap the word (W=3; W=2 controls; directly, through a parameter, '
                'plus a zero global, through a local) at stack sizes 1..69 by 4, 100, 500, 501, 1000 words (quick: 5, 33, 64, 500) with stores near the end of the stack: always a clean stack_overflow, no monitor alarm',
        'quick_thinning': 'the actions rec/trystop/nestlit/twolit/writemin/incr/writearr are not combined with the three-scalar frame variant in the quick tier',
        'inputs': '(length n, index i) pairs incl. negative, zero, last, one past, far out of range: ' + str(INPUTS_T if tier == 'thorough' else INPUTS_Q),
        'stack_sizes': 'every size from 1 word up to S_min+8, plus 256 and 1024 words',
        'word_sizes': '2,3,4,8' if tier == 'thorough' else 'one per program, rotating 2,2,3,2,4,2,8',
    })
    cov['sweeps'] = total.get('sweeps', 0)
    cov['overflow_runs'] = total.get('overflow_runs', 0)
    cov['smin_histogram'] = total.get('smin', {})
    return cov


def vacuity(total, tier):
    if total.get('viol'):
        return None
    if total.get('monitor_points', {}).get('mem', 0) == 0:
        return 'memory monitor sampled nothing'
    if total.get('overflow_runs', 0) == 0:
        return 'no run overflowed: the tight-stack side was never exercised'
    return None


def replay(case):
    if case.get('kind') == 'overflow':
        from .c05 import replay as r5
        return r5(case)
    return replay_sweep(case)
