"""C15 -- --unchecked changes nothing on fault-free runs (the checks are pure observers).
Metamorphic: every (program, input, word size) of families E, S, F (C01), T, H, Q, P (C02),
IDX/STR/DIV (C05) and X (C08) is compiled twice; whenever the checked run raises no runtime
fault, the unchecked run must produce exactly the same committed trace, must not trap, and
must satisfy the memory-entitlement monitor on every explored state."""
from ..cases import Stats, compile_case, std_coverage, describe
from .. import svm
from . import c03

LEVEL = 'model_checking'
FAULTS = c03.FAULTS


def items(tier):
    its = [it for it in c03.items('thorough' if tier == 'thorough' else 'quick') if it[1] != 'K']
    if tier == 'quick':
        # c03's quick selection takes every 6th batch starting at 0; shift by 3 so the two checks see different batches
        full = [it for it in c03.items('thorough') if it[1] != 'K']
        its = [it for j, it in enumerate(full) if j % 6 == 3 or it[1] in ('F', 'P')]
    return [(i,) + tuple(it[1:]) for i, it in enumerate(its)]


def run_item(item, tier):
    st = Stats()
    st.count('family_items', item[1])
    Ws = [2, 3, 4, 8] if tier == 'thorough' else [2, (3, 4, 8)[item[0] % 3]]
    for tag, src, argvs in c03.sources(item, tier):
        st.add('cases')
        for W in Ws:
            lines, err = compile_case(src, W)
            ulines, uerr = compile_case(src, W, unchecked=True)
            if err or uerr:
                st.add('evaluations')
                st.viol(f'{tag}: not compiled: {err or uerr}', {'src': src, 'argv': argvs[0], 'W': W, 'tag': tag})
                continue
            for argv in argvs:
                twin(st, tag, src, lines, ulines, argv, W)
        st.sample({'family': tag, 'inputs': [list(a) for a in argvs][:3], 'word_sizes': Ws, 'source_tail': src[-400:]})
    return st


def twin(st, tag, src, lines, ulines, argv, W):
    case = {'src': src, 'argv': list(argv), 'W': W, 'tag': tag}
    st.add('evaluations')
    try:
        r = svm.run(svm.assemble(lines, argv, strict_header=True), 3_000_000)
    except svm.AsmError as e:
        st.viol(f'{tag}: assembler rejects checked output: {e}', case)
        return
    st.vm(r)
    if r.outcome == 'budget':
        st.add('inconclusive')
        return
    if r.outcome != 'loop':
        st.viol(f'{tag}: checked build: {describe(r)[:200]}', case)
        return
    if any(f in FAULTS for f in r.flags):
        st.add('faulting_runs_skipped')
        return
    try:
        u = svm.run(svm.assemble(ulines, argv, strict_header=True), 3_000_000, svm.Monitor(scope=False))
    except svm.AsmError as e:
        st.viol(f'{tag}: assembler rejects unchecked output: {e}', case)
        return
    st.vm(u)
    st.count('dims', f'W{W}')
    if u.outcome == 'budget':
        st.add('inconclusive')
        return
    if u.outcome != 'loop' or u.trace != r.trace:
        st.viol(f'{tag}: unchecked build differs on a fault-free run (W={W}, argv={argv}): checked {svm.fmt_trace(r.trace)[:250]} '
                f'unchecked {describe(u)[:250]}', case)
        return
    if u.violations:
        v = u.violations[0]
        st.viol(f'{tag}: unchecked build, monitor[{v["monitor"]}] {v["msg"]} at `{v["instr"]}`', case)
        return
    st.add('traces_validated_against_impl')
    st.count('outcomes', 'win' if 'win' in r.flags else ('error' if 'error' in r.flags else 'runs_forever'))
    if len(lines) != len(ulines):
        st.add('pairs_with_guards_removed')


def coverage(total, tier):
    cov = std_coverage(total, {
        'families': 'E, S, F, T, H, Q, P, IDX, STR, DIV, X with the inputs of their home checks: '
                    + ('all quick-size batches' if tier == 'thorough' else 'every 6th quick-size batch (offset 3), all F and P'),
        'word_sizes': '2,3,4,8' if tier == 'thorough' else '2 plus one of 3,4,8',
        'oracle': 'trace(checked) == trace(unchecked) whenever the checked trace has no fault flag; unchecked run never traps and '
                  'passes the memory-entitlement monitor',
    })
    cov['faulting_runs_skipped'] = total.get('faulting_runs_skipped', 0)
    cov['pairs_with_guards_removed'] = total.get('pairs_with_guards_removed', 0)
    return cov


def vacuity(total, tier):
    if total.get('viol'):
        return None
    if not total.get('pairs_with_guards_removed'):
        return 'checked and unchecked builds never differed in size: nothing was compared'
    if not total.get('faulting_runs_skipped'):
        return 'no faulting run was seen: the fault filter was never exercised'
    return None


def replay(case):
    st = Stats()
    lines, err = compile_case(case['src'], case['W'])
    ulines, uerr = compile_case(case['src'], case['W'], unchecked=True)
    if err or uerr:
        return [str(err or uerr)]
    twin(st, case['tag'], case['src'], lines, ulines, case['argv'], case['W'])
    return [v['msg'] for v in st.get('viol', [])]
