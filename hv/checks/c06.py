"""C06 -- flavour and context rules are enforced on every program.
A placement puts one construct (ordinary / you / defeat call, try..undo, try..stop, preempt, ??,
break, continue, or a plain literal) at the bottom of a chain of context formers inside an
ordinary, you or defeat function or a global initialiser; everything else in the program is
well-typed.  The verdict of an independent context algebra (written from the README's "what is
allowed where" table) must coincide with acceptance by hidc.parser.parse + evaluate, in both
directions; every rejection must be a compiler diagnostic (its class is recorded in the evidence, not judged)."""
import itertools

from ..cases import Stats
from .. import hid

LEVEL = 'exploration'

PRELUDE = """
int x = 1;
int[] ga = [1, 2, 3];
empty f0() { }
int f1(int v) { return v; }
empty @y0() { }
int @y1(int v) { return v; }
empty !d0() { }
int !d1(int v) { return v; }
"""

# statement formers: (name, template, requirement, effect)
#   requirement: flag that must be in ctx for the former itself to be legal (or None)
#   effect: function ctx -> ctx for the hole
F, Y, D, L = 'FUNC', 'YOU', 'DEFEAT', 'LOOP'


def same(c):
    return c


def loop(c):
    return c | {L}


def trybody(c):
    return (c - {Y}) | {D}


def spec(c):
    return c - {Y}


STMT_FORMERS = [
    ('if', 'if (x > 0) {{ {S} }}', None, same),
    ('else', 'if (x > 0) {{ }} else {{ {S} }}', None, same),
    ('block', '{{ {S} }}', None, same),
    ('while', 'while (x > 0) {{ {S} }}', None, loop),
    ('for', 'for (; x > 0;) {{ {S} }}', None, loop),
    ('try_undo', 'try {{ {S} }} undo {{ }}', Y, trybody),
    ('try_stop', 'try {{ {S} }} stop {{ }}', Y, trybody),
    ('undo_handler', 'try {{ }} undo {{ {S} }}', Y, same),
    ('stop_handler', 'try {{ }} stop {{ {S} }}', Y, same),
    ('preempt', 'preempt {{ {S} }}', D, same),
]
EXPR_FORMERS = [
    ('paren', '({E})', None, same),
    ('arg', 'f1({E})', F, same),
    ('element', '[{E}, 2][0]', None, same),
    ('index', 'ga[{E}]', None, same),
    ('arith', '-{E} + 1', None, same),
    ('cast', '(({E} is byte) is int)', None, same),
    ('spec_left', '({E} ?? 1)', Y, spec),
    ('spec_right', '(1 ?? {E})', Y, spec),
]
ADAPTERS = [
    ('assign', 'x = {E};'),
    ('cond', 'if ({E} > 0) {{ }}'),
    ('loopcond', 'while ({E} > 99) {{ }}'),
    ('return', 'return {E};'),
    ('callstmt', 'writeln({E});'),
    ('decl', 'int v = {E};'),
]
STMT_CONSTRUCTS = [
    ('call', 'f0();', F), ('youcall', '@y0();', Y), ('defeatcall', '!d0();', D),
    ('try_undo', 'try { } undo { }', Y), ('try_stop', 'try { } stop { }', Y), ('preempt', 'preempt { }', D),
    ('break', 'break;', L), ('continue', 'continue;', L),
]
EXPR_CONSTRUCTS = [
    ('call', 'f1(1)', F), ('youcall', '@y1(1)', Y), ('defeatcall', '!d1(1)', D), ('spec', '(x ?? 2)', Y), ('literal', '7', None),
]
FLAVOURS = [('ordinary', 'int t() {{ {S} return 0; }}', frozenset({F})),
            ('you', 'int @t() {{ {S} return 0; }}', frozenset({F, Y})),
            ('defeat', 'int !t() {{ {S} return 0; }}', frozenset({F, D}))]


def verdict(ctx, formers, construct_req):
    """Context algebra: returns True iff every former and the construct is allowed where it stands."""
    ok = True
    for name, tpl, req, eff in formers:
        if req is not None and req not in ctx:
            ok = False
        ctx = eff(ctx)
    if construct_req is not None and construct_req not in ctx:
        ok = False
    return ok


def build(flavour, sformers, adapter, eformers, construct):
    """-> (source, allowed)"""
    if adapter is None:
        inner = construct[1]
        formers = list(sformers)
    else:
        e = construct[1]
        for ef in reversed(eformers):
            e = ef[1].format(E=e)
        inner = adapter[1].format(E=e)
        formers = list(sformers) + list(eformers)
    s = inner
    for sf in reversed(sformers):
        s = sf[1].format(S=s)
    if flavour == 'global':
        src = PRELUDE + f'int gv = {s};\n'
        ctx = frozenset()
    else:
        fl = [f for f in FLAVOURS if f[0] == flavour][0]
        src = PRELUDE + fl[1].format(S=s) + '\n'
        ctx = fl[2]
    return src, verdict(ctx, formers, construct[2])


def accept(src):
    try:
        hid.typecheck(src)
        return 'accept', None
    except hid.ParserError as e:
        return 'ParserError', str(e)
    except hid.CompilerError as e:
        return type(e).__name__, str(e)
    except Exception as e:
        return 'crash', f'{type(e).__name__}: {e}'


def items(tier):
    maxd = 4 if tier == 'thorough' else 3
    out = []
    i = 0
    # one work item per (flavour, first former or none, kind)
    for fl in ('ordinary', 'you', 'defeat'):
        for first in [None] + list(range(len(STMT_FORMERS))):
            out.append((i, fl, first, maxd))
            i += 1
    out.append((i, 'global', None, maxd))
    return out


def enumerate_item(item):
    _, fl, first, maxd = item
    if fl == 'global':
        for ne in range(0, maxd + 1):
            for efs in itertools.product(EXPR_FORMERS, repeat=ne):
                for c in EXPR_CONSTRUCTS:
                    s = c[1]
                    for ef in reversed(efs):
                        s = ef[1].format(E=s)
                    yield ('global', (), None, efs, c, s)
        return
    if first is None:
        prefixes = [()]
        rest_depth = maxd
    else:
        prefixes = [(STMT_FORMERS[first],)]
        rest_depth = maxd - 1
    for pre in prefixes:
        for ns in range(0, (rest_depth if first is not None else 0) + 1):
            for sfs in itertools.product(STMT_FORMERS, repeat=ns):
                sformers = pre + sfs
                depth_left = maxd - len(sformers)
                for c in STMT_CONSTRUCTS:
                    yield (fl, sformers, None, (), c, None)
                for ne in range(0, depth_left + 1):
                    for efs in itertools.product(EXPR_FORMERS, repeat=ne):
                        for ad in ADAPTERS:
                            for c in EXPR_CONSTRUCTS:
                                yield (fl, sformers, ad, efs, c, None)


def check_one(st, fl, sformers, ad, efs, c, gsrc=None):
    if fl == 'global':
        src = PRELUDE + f'int gv = {gsrc};\n'
        allowed = verdict(frozenset(), list(efs), c[2])
    else:
        src, allowed = build(fl, sformers, ad, efs, c)
    st.add('evaluations')
    got, msg = accept(src)
    case = {'src': src, 'allowed': allowed}
    chain = [f[0] for f in sformers] + ([ad[0]] if ad else []) + [f[0] for f in efs] + [c[0]]
    if got == 'crash':
        st.viol(f'{fl}/{chain}: compiler crashed: {msg}', case)
        return
    if allowed and got != 'accept':
        st.viol(f'{fl}/{chain}: the context rules allow this placement but hidc rejects it with {got}: {msg}', case)
        return
    if not allowed and got == 'accept':
        st.viol(f'{fl}/{chain}: the context rules forbid this placement but hidc accepts it', case)
        return
    if not allowed:
        # the property only asks for a compile-time rejection; which diagnostic class reports it is recorded, not judged
        st.count('rejection_classes', got)
    if allowed:
        st.add('accepted')
        if any(f[2] is not None for f in list(sformers) + list(efs)) or c[2] not in (None, F):
            st.add('accepted_because_of_context')
    else:
        st.add('rejected')
    st.count('constructs', c[0] + ('/ok' if allowed else '/no'))


def run_item(item, tier):
    st = Stats()
    last = None
    for fl, sformers, ad, efs, c, gsrc in enumerate_item(item):
        check_one(st, fl, sformers, ad, efs, c, gsrc)
        last = (fl, sformers, ad, efs, c, gsrc)
    if last:
        fl, sformers, ad, efs, c, gsrc = last
        src = PRELUDE + f'int gv = {gsrc};\n' if fl == 'global' else build(fl, sformers, ad, efs, c)[0]
        st.sample({'flavour': fl, 'chain': [f[0] for f in sformers] + ([ad[0]] if ad else []) + [f[0] for f in efs], 'construct': c[0],
                   'source_tail': src[len(PRELUDE):]})
    return st


def coverage(total, tier):
    return {
        'evaluations': total.get('evaluations', 0),
        'distinct_nontrivial': total.get('rejected', 0) + total.get('accepted_because_of_context', 0),
        'rule': 'every placement is a distinct (flavour, chain of formers, construct) tuple; non-trivial = rejected by the context rules, or '
                'accepted although it contains a flavoured construct or a context-changing former (try body, handler, preempt, ?? operand)',
        'accepted': total.get('accepted', 0), 'rejected': total.get('rejected', 0),
        'by_construct': total.get('constructs', {}),
        'exhaustive': True,
        'bounds': {
            'chain_depth': 4 if tier == 'thorough' else 3,
            'statement_formers': [f[0] for f in STMT_FORMERS], 'expression_formers': [f[0] for f in EXPR_FORMERS],
            'expression_to_statement_adapters': [a[0] for a in ADAPTERS],
            'constructs': [c[0] for c in STMT_CONSTRUCTS] + ['expr:' + c[0] for c in EXPR_CONSTRUCTS],
            'flavours': ['ordinary', 'you', 'defeat', 'global initialiser'],
        },
    }


def vacuity(total, tier):
    if total.get('viol'):
        return None
    if not total.get('rejected') or not total.get('accepted_because_of_context'):
        return 'both rejected placements and context-dependent accepted placements must occur'
    return None


def replay(case):
    got, msg = accept(case['src'])
    allowed = case['allowed']
    if got == 'crash':
        return [f'crash: {msg}']
    if allowed and got != 'accept':
        return [f'allowed placement rejected: {got}: {msg}']
    if not allowed and got == 'accept':
        return ['forbidden placement accepted']
    return []
