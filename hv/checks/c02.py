"""C02 -- try/undo, try/stop, preempt and ?? follow their time-travel semantics.
Level: model_checking: the VM explores every future of every Turing jump; the reference
interpreter resolves the same choice points by stateless backtracking; committed traces
must agree on every enumerated (program, input)."""
from ..cases import Stats, run_batch, run_program, replay_conformance, std_coverage
from ..gen import tt, variants

LEVEL = 'model_checking'


def items(tier):
    out = tt.family_T(tier) + tt.family_H(tier) + tt.family_Q(tier) + tt.family_P(tier) + tt.family_R(tier) + tt.family_O(tier) + variants.family_V(tier)
    return [(i,) + it for i, it in enumerate(out)]


def run_item(item, tier):
    idx, fam, payload = item
    st = Stats()
    st.count('family_items', fam)
    Ws = [2, 4] if (tier == 'thorough' or idx % 4 == 0) else [2]
    if fam == 'T':
        run_batch(st, tt.build_T, payload, tt.T_ARGVS, Ws, f'T[{idx}]')
        atoms = tt.t_atoms()
        b, h, hb = payload[-1]
        st.sample({'family': 'T', 'try_body': [atoms[i] for i in b], 'handler': h, 'handler_body': tt.T_HBODIES[hb], 'inputs': tt.T_ARGVS})
    elif fam == 'H':
        run_batch(st, tt.build_H, payload, tt.H_ARGVS, Ws, f'H[{idx}]')
        seq, shape = payload[0]
        st.sample({'family': 'H', 'history': [[tt.H_BODIES[tt.H_BLOCKS[i][0]], tt.H_BLOCKS[i][1]] for i in seq], 'shape': shape})
    elif fam == 'Q':
        run_batch(st, tt.build_Q, payload, tt.Q_ARGVS, Ws, f'Q[{idx}]')
        pi, l, r = payload[0]
        st.sample({'family': 'Q', 'use': tt.Q_POS[pi], 'left': l, 'right': r})
    elif fam == 'R':
        run_batch(st, tt.build_R, payload, tt.T_ARGVS, Ws, f'R[{idx}]')
        sh, pre, e, h, hb = payload[0]
        st.sample({'family': 'R', 'function': tt.R_SHAPES[sh].format(k=0, pre=tt.R_PRE[pre], e=tt.R_EXPR[e], h=h, hb=tt.R_HB[hb])})
    elif fam == 'O':
        for order in payload:
            run_program(st, tt.build_O(order), tt.O_ARGVS, [2], f'O{list(order)}')
            st.add('cases')
        st.sample({'family': 'O', 'call_order': [tt.O_FUNCS[i][1] for i in payload[0]]})
    elif fam == 'V':
        _run_variants(st, payload)
    elif fam == 'Q2':
        run_batch(st, tt.build_Q2, payload, tt.Q_ARGVS, Ws, f'Q2[{idx}]')
    elif fam == 'P':
        run_batch(st, tt.build_P, payload, tt.P_ARGVS, [2, 4], f'P[{idx}]')
        # unchecked twin: compared only where the checked reference raises no fault (UB otherwise)
        from ..cases import ref_trace
        from ..ref.parser import parse_program
        src = tt.build_P(payload)
        prog = parse_program(src)
        ok = [a for a in tt.P_ARGVS if ('f', 'error') not in ref_trace(prog, a, 2)[1][0]]
        if ok:
            run_program(st, src, ok, [2], f'P[{idx}]/unchecked', unchecked=True, prog=prog)
    return st


def _run_variants(st, payload):
    """Example programs and their single-token variations: typed and given meaning by the reference, then compared."""
    from ..cases import ref_trace, check_conformance, compile_case
    from ..ref.parser import parse_program
    from ..ref import types as rtypes, interp
    from ..runner import HarnessError
    name, idx, nin = payload
    argvs = variants.ARGS[name][:nin]
    for what, src in variants.variants(name, idx):
        st.add('cases')
        try:
            prog = parse_program(src)
            rtypes.elaborate(prog)
        except Exception:
            st.add('variants_not_programs')       # the edit broke the syntax or the typing rules: not a program
            continue
        tag = f'V[{name}: {what}]'
        lines = None
        for argv in argvs:
            try:
                ref = ref_trace(prog, argv, 2, max_steps=8000, max_runs=80)
            except HarnessError:
                st.add('variants_outside_model')  # e.g. reads an element that was never written
                continue
            if ref[0] != 'ok':
                st.add('variants_outside_model')
                continue
            if lines is None:
                lines, err = compile_case(src, 2)
                if err:
                    st.viol(f'{tag}: well-typed program not compiled: {err[0]}: {err[1]}',
                            {'kind': 'conformance', 'src': src, 'prog': repr(prog), 'argv': list(argv), 'W': 2, 'S': 256, 'unchecked': False, 'tag': tag})
                    break
            check_conformance(st, src, prog, argv, 2, lines=lines, tag=tag, ref=ref)
            st.add('variant_runs')
    st.sample({'family': 'V', 'example': name, 'variant_indices': list(idx)})


def coverage(total, tier):
    cov = std_coverage(total, {
        'T': f'{len(tt.t_atoms()) - len(tt.pl_atoms())} try-body atoms (19 base atoms, each also under preempt / if / three loop shapes) plus {len(tt.pl_atoms())} loops containing a preempt block '
             f'({len(tt.PL_BODIES)} ways a preempt body can end: return / break / continue / fall through, alone and behind a condition or a nested loop, x defeat inside the loop, after it, or both; single-atom bodies x undo/stop); all bodies of '
             'length<=2' + (' plus length 3 over 19 atoms' if tier == 'thorough' else ' with at least one non-nesting atom') + ' x {undo, stop}; 3 further handler bodies '
             '(return, nested try, you-call) on ' + ('single atoms and all base pairs' if tier == 'thorough' else 'single atoms') + '; x in 0,1,2',
        'H': '20 try blocks (10 bodies x undo/stop): all ordered pairs in three shapes (straight line, loop run 3 times, you-function '
             'called twice) and ' + ('all triples' if tier == 'thorough' else 'triples over 6 blocks') + '; pairs preceded by calls of another you-function with its own '
             'try/stop and of the function itself (' + ('all' if tier == 'thorough' else '20 x 6') + '); x in 0,1,2',
        'O': f'{len(tt.O_FUNCS)} you-functions of different kinds (try/stop, try/undo, preemptive and non-preemptive defeat callees, ??, value-returning try, '
             'try in a loop, dynamic arrays around a try) called -- hence generated -- in every order of ' + ('every 5th permutation of every 5-subset' if tier == 'thorough' else 'every 4th 3-subset')
             + ' plus all ordered pairs, the first two called again; x in 0,1,2',
        'V': 'the example programs shipped with the compiler (decimal, factor, hello, max, mergesort, optional_max, ouroboros) on 1-7 inputs each, and every single-token '
             'variation of them (integer literal +-1 / 0 / doubled, comparison, arithmetic, and/or, undo/stop, break/continue, true/false swapped, `not` removed) that the '
             'reference typer still accepts; variants leaving the model are skipped and counted',
        'Q': f'{len(tt.Q_LEFT)} left x {len(tt.Q_RIGHT)} right operands x {len(tt.Q_POS)} use positions '
             + ('(all)' if tier == 'thorough' else '(every 2nd, all for assignments to globals)') + f' + {len(tt.Q_OTHER)} bool/byte/constant-left-with-faulting-right shapes; x in 0,1,3',
        'R': f'{len(tt.R_SHAPES)} shapes of value-returning you-functions returning from inside a try x {len(tt.R_PRE)} prefixes x {len(tt.R_EXPR)} return '
             'expressions (calls of value-returning defeat functions that may defeat) x undo/stop x 3 handler bodies' + ('' if tier == 'thorough' else ' (every 2nd + all plain calls)') + '; x in 0,1,2',
        'P': f'{len(tt.P_FUNCS)} preemptive defeat functions x {len(tt.P_AFTER)} continuations x undo/stop, checked (W 2,4) and unchecked twins',
    })
    for k in ('variant_runs', 'variants_not_programs', 'variants_outside_model'):
        cov[k] = total.get(k, 0)
    return cov


def vacuity(total, tier):
    if total.get('traces_validated_against_impl', 0) == 0:
        return 'no trace was validated'
    oc = total.get('outcomes', {})
    if len(oc) < 2:
        return f'a single outcome class {oc}: nothing collided'
    if total.get('rollbacks', 0) == 0:
        return 'no roll-backs'
    return None


def replay(case):
    return replay_conformance(case)
