"""C16 -- control never runs off the end of a function.
Family B: all statement trees up to a size bound over return / break / continue / if / while /
while(true) / for with a non-constant condition and no break / for(;;) (curated) / try-undo / try-stop / preempt / !is_defeat / !truth_is_defeat /
all_is_win / all_is_broken / defeat-function call, conditions drawn from input bits, as the
body of a plain, you or defeat function, value-returning or empty.  Every statement is
preceded by a distinct marker.  The function under test is followed in the emitted code by a
sentinel function that prints FELL.
Oracles: (1) accept/reject equals the reference judgement (missing return); (2) for accepted
bodies and all 2^k condition assignments: reference trace == VM trace (so no accepted body
completes without returning and dropped statements could not run), the flow monitor is silent
on every explored path and FELL never appears; (3) --lint rejects only if the reference never
reaches some statement on any input, and otherwise leaves the assembly byte-identical."""
from ..cases import Stats, compile_case, check_conformance, replay_conformance, std_coverage, ref_trace
from .. import hid
from ..ref import types as rtypes, interp
from ..ref.parser import parse_program
from ..runner import HarnessError

LEVEL = 'model_checking'

ATOMS = ['R', 'B', 'C', 'D', 'T', 'W', 'X', 'F', 'M', 'U', 'K']
COMPOUND = ['if', 'ifelse', 'while', 'forever', 'for', 'tryundo', 'trystop', 'preempt']


def gen_seqs(n, ctx):
    """All statement sequences of total size n valid in ctx = (in_loop, defeat_ok, you_ok)."""
    if n == 0:
        yield ()
        return
    for k in range(1, n + 1):
        for s in gen_stmt(k, ctx):
            for rest in gen_seqs(n - k, ctx):
                yield (s,) + rest


def gen_stmt(n, ctx):
    in_loop, defeat_ok, you_ok = ctx
    if n == 1:
        for a in ATOMS:
            if a in 'BC' and not in_loop:
                continue
            if a in 'DTFK' and not defeat_ok:
                continue
            yield (a,)
        # empty compound statements
    m = n - 1
    if n >= 1:
        for body in gen_seqs(m, ctx):
            yield ('if', body)
        for body in gen_seqs(m, (True, defeat_ok, you_ok)):
            yield ('while', body)
            yield ('forever', body)
            yield ('for', body)
        if defeat_ok:
            for body in gen_seqs(m, ctx):
                yield ('preempt', body)
        for a in range(0, m + 1):
            for th in gen_seqs(a, ctx):
                for el in gen_seqs(m - a, ctx):
                    yield ('ifelse', th, el)
            if you_ok:
                for body in gen_seqs(a, (in_loop, True, False)):
                    for h in gen_seqs(m - a, ctx):
                        yield ('tryundo', body, h)
                        yield ('trystop', body, h)


class Printer:
    def __init__(self, retval):
        self.n = 0
        self.c = 0
        self.retval = retval

    def mark(self):
        ch = 'abcdefghijklmnopqrstuvwxyzABCDEFGHIJKLMNOPQRSTUVWXYZ0123456789'[self.n]
        self.n += 1
        return f"write('{ch}'); "

    def cond(self):
        k = self.c
        self.c += 1
        return f'(x / {1 << k}) % 2 == 1'

    def seq(self, ss):
        return ''.join(self.stmt(s) for s in ss)

    def stmt(self, s):
        m = self.mark()
        k = s[0]
        if k == 'R':
            return m + ('return 7; ' if self.retval else 'return; ')
        if k == 'B':
            return m + 'break; '
        if k == 'C':
            return m + 'continue; '
        if k == 'D':
            return m + '!is_defeat(); '
        if k == 'T':
            return m + f'!truth_is_defeat({self.cond()}); '
        if k == 'W':
            return m + 'all_is_win(); '
        if k == 'X':
            return m + 'all_is_broken(); '
        if k == 'F':
            return m + '!dfn(x); '
        if k == 'K':
            # the condition folds to constant false: the statement never defeats and execution goes on
            return m + ('!truth_is_defeat(KF); ' if self.n % 2 else '!truth_is_defeat(KN < 5); ')
        if k == 'M':
            return m + 'y = 1 - y; '
        if k == 'U':
            # a user-defined overload of a terminal builtin's name is an ordinary call that returns
            return m + ('all_is_broken("w"); ' if self.n % 2 else 'all_is_win(y); ')
        if k == 'if':
            return m + f'if ({self.cond()}) {{ {self.seq(s[1])}}} '
        if k == 'ifelse':
            return m + f'if ({self.cond()}) {{ {self.seq(s[1])}}} else {{ {self.seq(s[2])}}} '
        if k == 'while':
            return m + f'while ({self.cond()}) {{ if (x > 200) {{ break; }} x += 32; {self.seq(s[1])}}} '
        if k == 'forever':
            return m + f'while (true) {{ {self.seq(s[1])}}} '
        if k == 'for':
            # a loop with a non-constant condition and no break of its own: it may run zero times
            q = f'q{self.n}'
            return m + f'for (int {q} = 0; {q} < 2 and {self.cond()}; {q} += 1) {{ {self.seq(s[1])}}} '
        if k == 'forinf':
            return m + f'for (;;) {{ {self.seq(s[1])}}} '
        if k == 'tryundo':
            return m + f'try {{ {self.seq(s[1])}}} undo {{ {self.seq(s[2])}}} '
        if k == 'trystop':
            return m + f'try {{ {self.seq(s[1])}}} stop {{ {self.seq(s[2])}}} '
        if k == 'preempt':
            return m + f'preempt {{ {self.seq(s[1])}}} '
        raise ValueError(s)


PRE = ("const bool KF = false; const int KN = 9;\n"
       "empty !dfn(int v) { write('~'); !truth_is_defeat(v % 2 == 0); }\n"
       "empty all_is_broken(string why) { write(why); }\nempty all_is_win(int code) { write(code); }\n")
SENTINEL = 'empty sentinel() { write("FELL"); all_is_broken(); }\n'

KINDS = [('plain', 'int'), ('plain', 'empty'), ('you', 'int'), ('you', 'empty'), ('defeat', 'int'), ('defeat', 'empty')]


def build(body, flavour, ret):
    p = Printer(ret == 'int')
    text = p.seq(body)
    nbits = p.c
    name = {'plain': 'fut', 'you': '@fut', 'defeat': '!fut'}[flavour]
    f = f'{ret} {name}(int x) {{ int y = 0; {text}}}\n'
    use = f'write({name}(x));' if ret == 'int' else f'{name}(x);'
    if flavour == 'defeat':
        main = (f"empty @is_you(int x) {{ try {{ {use} write('t'); }} undo {{ write('U'); }} "
                f"try {{ {use} write('t'); }} stop {{ write('S'); }} if (x == 9999) {{ sentinel(); }} write('E'); }}\n")
    else:
        main = f"empty @is_you(int x) {{ {use} if (x == 9999) {{ sentinel(); }} write('E'); }}\n"
    return PRE + f + SENTINEL + main, nbits, p.n


def ctx_for(flavour):
    return (False, flavour == 'defeat', flavour == 'you')


def all_bodies(flavour, maxsize, thin=1):
    """All bodies up to maxsize; with thin > 1 only every thin-th body of the largest size is kept."""
    out = []
    for n in range(0, maxsize + 1):
        seqs = list(gen_seqs(n, ctx_for(flavour)))
        if n == maxsize and thin > 1:
            seqs = seqs[::thin]
        out.extend(seqs)
    return curated(flavour) + out


R, B, C, M, W = ('R',), ('B',), ('C',), ('M',), ('W',)
# larger bodies that are always included: loops in which continue, break and return/terminal paths meet
CURATED = [
    (('forever', (('if', (C,)), R)),),
    (('forinf', (('if', (M, C)), R)),),
    (('forinf', (R,)),),
    (('forinf', (('if', (B,)), M)), R),
    (('forever', (('ifelse', (C,), (R,)),)),),
    (('forever', (('ifelse', (R,), (C,)),)),),
    (('while', (('if', (C,)), R)), R),
    (('forever', (('if', (B,)), ('if', (C,)), R)), R),
    (('forever', (('forever', (('if', (B,)), C)), R)),),
    (('forever', (('if', (R,)), ('if', (C,)), W)),),
    (('forever', (('if', (C,)), ('if', (C,)), R)),),
    (('forinf', (('while', (('if', (C,)), B)), ('if', (C,)), R)),),
    (('forever', (('if', (M, C)), M, ('if', (C,)), R)),),
    (('forever', (('ifelse', (('if', (C,)), R), (C,)),)),),
    (('while', (('forever', (('if', (C,)), R)),)), R),
    (('forever', (('if', (C,)), ('forever', (('if', (C,)), R)))),),
]
CURATED_YOU = [
    (('forever', (('tryundo', (('T',), C), (R,)),)),),
    (('forever', (('trystop', (('T',), ('if', (C,)), R), (C,)),)),),
    (('forever', (('tryundo', (('if', (C,)), R), (('if', (C,)), R)),)),),
]


def curated(flavour):
    return CURATED + (CURATED_YOU if flavour == 'you' else [])


def thin_for(tier, flavour):
    if tier == 'thorough':
        return 1 if flavour == 'plain' else 3
    return 2 if flavour == 'plain' else 6


def items(tier):
    maxsize = 4 if tier == 'thorough' else 3
    out = []
    i = 0
    for flavour, ret in KINDS:
        bodies = all_bodies(flavour, maxsize, thin_for(tier, flavour))
        step = 60
        for lo in range(0, len(bodies), step):
            out.append((i, flavour, ret, maxsize, lo, lo + step))
            i += 1
    return out


_BODIES = {}


def run_item(item, tier):
    idx, flavour, ret, maxsize, lo, hi = item
    st = Stats()
    key = (flavour, maxsize)
    if key not in _BODIES:
        _BODIES[key] = all_bodies(flavour, maxsize, thin_for(tier, flavour))
    for body in _BODIES[key][lo:hi]:
        check_body(st, body, flavour, ret)
    st.count('family_items', f'{flavour}/{ret}')
    b = _BODIES[key][min(hi, len(_BODIES[key])) - 1]
    st.sample({'flavour': flavour, 'returns': ret, 'body': build(b, flavour, ret)[0].split('\n')[1]})
    return st


def check_body(st, body, flavour, ret):
    src, nbits, nmarks = build(body, flavour, ret)
    check_src(st, src, nbits, nmarks, flavour, ret)


def check_src(st, src, nbits, nmarks, flavour, ret):
    case = {'kind': 'body', 'src': src, 'flavour': flavour, 'ret': ret, 'nbits': nbits, 'nmarks': nmarks}
    st.add('cases')
    st.add('evaluations')
    prog = parse_program(src)
    try:
        rtypes.elaborate(prog)
        rv, rmsg = 'accept', None
    except rtypes.Reject as e:
        rv, rmsg = 'reject', str(e)
    except rtypes.Unspecified as e:
        st.add('unspecified')
        return
    # acceptance is judged on the whole compiler (whichever phase reports a missing return)
    lines, err = compile_case(src, 2)
    if err and err[0] != 'reject':
        st.viol(f'{flavour}/{ret} body crashed the compiler: {err[1]}', case)
        return
    iv, imsg = ('reject', err[1]) if err else ('accept', None)
    if rv != iv:
        if rv == 'accept':
            st.viol(f'{flavour}/{ret}: body always returns (or never completes) by the documented rules but is rejected: {iv}: {imsg}', case)
        else:
            st.viol(f'{flavour}/{ret}: body can complete without returning ({rmsg}) but is accepted', case)
        return
    if rv == 'reject':
        st.add('rejected')
        return
    st.add('accepted')
    # ---- execution on every condition assignment
    seen = set()
    for x in range(1 << nbits):
        collected = []
        try:
            ref = interp.run(rtypes.elaborate(prog), [str(x)], 2, True, trace_all=collected)
        except interp.ModelError as e:
            st.viol(f'{flavour}/{ret}: accepted body leaves the defined behaviour for x={x}: {e}', dict(case, x=x))
            return
        for ev in collected:
            for e in ev:
                if e[0] == 'y':
                    seen.add(e[1])
        r = check_conformance(st, src, prog, [str(x)], 2, lines=lines, tag=f'B[{flavour}/{ret}]', ref=ref)
        if r is not None and b'FELL' in r.output:
            st.viol(f'{flavour}/{ret}: control fell into the sentinel for x={x}', dict(case, x=x))
            return
    # ---- lint
    st.add('evaluations')
    llines, lerr = compile_case(src, 2, lint=True)
    marks = set(ord(c) for c in 'abcdefghijklmnopqrstuvwxyzABCDEFGHIJKLMNOPQRSTUVWXYZ0123456789'[:nmarks])
    never = marks - seen
    if lerr:
        if lerr[0] != 'reject':
            st.viol(f'{flavour}/{ret}: --lint failed with {lerr}', case)
        elif not never:
            st.viol(f'{flavour}/{ret}: --lint rejects ({lerr[1]}) although the reference reaches every statement on some input', case)
        else:
            st.add('lint_rejected')
    else:
        if llines != lines:
            st.viol(f'{flavour}/{ret}: --lint accepted the program but changed the generated code', case)
        else:
            st.add('lint_identical')
            if never:
                st.add('unreached_but_not_flagged')


def coverage(total, tier):
    cov = std_coverage(total, {
        'B': 'all statement sequences of total size <= ' + ('3 and size 4 (all for plain, every 3rd for you/defeat functions)' if tier == 'thorough' else '2 and size 3 (every 2nd for plain, every 6th for you/defeat functions)') + f' over atoms {ATOMS} (R return, B break, C continue, '
             f'plus {len(CURATED)}+{len(CURATED_YOU)} curated larger loop bodies mixing continue/break/return; D !is_defeat, T !truth_is_defeat(bit), W all_is_win, X all_is_broken, F defeat-function call, M plain statement, K !truth_is_defeat of a condition that folds to constant false, U call of a user-defined overload of all_is_win/all_is_broken) and compounds '
             f'{COMPOUND}, context-valid, as body of {KINDS}; every statement preceded by a distinct marker; all 2^k assignments of the k condition bits',
    })
    for k in ('accepted', 'rejected', 'unspecified', 'lint_rejected', 'lint_identical', 'unreached_but_not_flagged'):
        cov[k] = total.get(k, 0)
    return cov


def vacuity(total, tier):
    if total.get('viol'):
        return None
    if not total.get('accepted') or not total.get('rejected'):
        return 'accepted and rejected bodies must both occur'
    if total.get('monitor_points', {}).get('flow', 0) == 0:
        return 'flow monitor sampled nothing'
    if not total.get('lint_rejected') or not total.get('lint_identical'):
        return 'lint must both reject and accept somewhere'
    return None


def replay(case):
    if case.get('kind') == 'conformance':
        return replay_conformance(case)
    st = Stats()
    check_src(st, case['src'], case['nbits'], case['nmarks'], case['flavour'], case['ret'])
    return [v['msg'] for v in st.get('viol', [])]
