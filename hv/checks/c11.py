"""C11 -- expressions group by the documented precedence and associativity.
Exhaustive trees: for every enumerated expression tree t, printing t with minimal parentheses
(rules taken from the README table only) and with full parentheses and parsing the text with
hidc must give back exactly t; the independent precedence-climbing parser of hv.ref must agree."""
import itertools

from ..cases import Stats
from .. import hid
from ..ref.core import pexpr
from ..ref.parser import parse_expr, RefParseError

LEVEL = 'exploration'

from hidc import ast as hast                       # noqa: E402
from hidc.parser import parse as hparse            # noqa: E402
from hidc.parser.grammar import ps_expr, BlockContext    # noqa: E402
from hidc.lexer import SourceCode                  # noqa: E402
from hidc.lexer.tokens import DataType             # noqa: E402

BIN = ['*', '/', '%', '+', '-', '==', '!=', '<', '<=', '>', '>=', 'and', 'or']
BINCLS = {'*': 'Mul', '/': 'Div', '%': 'Mod', '+': 'Add', '-': 'Sub', '==': 'Eq', '!=': 'Ne', '<': 'Lt', '<=': 'Le',
          '>': 'Gt', '>=': 'Ge', 'and': 'And', 'or': 'Or'}
CLS2OP = {v: k for k, v in BINCLS.items()}
LEVELREP = ['*', '+', '<', 'and', 'or']


def h2core(n):
    """hidc parse tree -> HiD-core tuple."""
    c = type(n).__name__
    if c == 'IntValue':
        return ('int', n.data)
    if c == 'ByteValue':
        return ('chr', n.data)
    if c == 'BoolValue':
        return ('bool', n.data)
    if c == 'StringValue':
        return ('str', n.data)
    if c == 'VariableLookup':
        return ('var', n.var.name)
    if c == 'ArrayLookup':
        return ('idx', h2core(n.source), h2core(n.index))
    if c == 'LengthLookup':
        return ('len', h2core(n.source))
    if c == 'FuncCall':
        return ('call', n.func.name, tuple(h2core(a) for a in n.args))
    if c == 'ArrayLiteral':
        return ('arr', tuple(h2core(a) for a in n.values))
    if c in ('Pos', 'Neg', 'Not'):
        return ('un', {'Pos': '+', 'Neg': '-', 'Not': 'not'}[c], h2core(n.arg))
    if c == 'Is':
        t = n.type
        if isinstance(t, hast.ArrayType):
            t = ('arr', str(t.el_type), True)
        else:
            t = str(t)
        return ('is', h2core(n.expr), t)
    if c == 'Speculation':
        return ('spec', h2core(n.left), h2core(n.right))
    if c in CLS2OP:
        return ('bin', CLS2OP[c], h2core(n.left), h2core(n.right))
    raise ValueError(f'unknown node {c}')


def hidc_parse(text):
    try:
        node = hparse(SourceCode.from_string(text), ps_expr(BlockContext.YOU))
    except hid.CompilerError as e:
        return 'reject', f'{type(e).__name__}: {e}'
    except Exception as e:
        return 'crash', f'{type(e).__name__}: {e}'
    if node is None:
        return 'reject', 'no expression'
    return 'ok', h2core(node)


def check_tree(st, t, what):
    st.add('evaluations')
    smin = pexpr(t)
    sfull = pexpr(t, full=True)
    case = {'tree': repr(t), 'min': smin, 'full': sfull}
    for label, s in (('minimal', smin), ('full', sfull)):
        r = hidc_parse(s)
        if r[0] != 'ok':
            st.viol(f'{what}: {label} print {s!r} of tree {t} is not parsed: {r}', case)
            return
        if r[1] != t:
            st.viol(f'{what}: {label} print {s!r} parses to {r[1]} instead of {t}', case)
            return
    try:
        mine = parse_expr(smin)
    except RefParseError as e:
        raise AssertionError(f'reference parser rejects {smin!r}: {e}')
    if mine != t:
        raise AssertionError(f'reference parser disagrees with the printer on {smin!r}: {mine} vs {t}')
    if smin != sfull:
        st.add('nontrivial')
    st.add('roundtrips')


def trees_depth(leaves, unops, istypes, binops, depth, post=True):
    """All trees up to `depth` (list per exact depth)."""
    levels = [list(leaves)]
    allprev = list(leaves)
    for d in range(1, depth + 1):
        prev = levels[-1]
        older = [x for lv in levels[:-1] for x in lv]
        cur = []
        for u in unops:
            cur += [('un', u, x) for x in prev]
        for t in istypes:
            cur += [('is', x, t) for x in prev]
        if post:
            cur += [('len', x) for x in prev]
            cur += [('idx', x, leaves[0]) for x in prev]
            if d == 1:
                cur += [('idx', leaves[0], x) for x in prev]
        for op in binops:
            for a in prev:
                for b in prev + older:
                    cur.append(('bin', op, a, b))
            for a in older:
                for b in prev:
                    cur.append(('bin', op, a, b))
        levels.append(cur)
    return levels


SHAPES3 = [
    lambda o1, o2, o3: ('bin', o3, ('bin', o2, ('bin', o1, ('var', 'a'), ('var', 'b')), ('var', 'c')), ('var', 'd')),
    lambda o1, o2, o3: ('bin', o3, ('bin', o1, ('var', 'a'), ('bin', o2, ('var', 'b'), ('var', 'c'))), ('var', 'd')),
    lambda o1, o2, o3: ('bin', o2, ('bin', o1, ('var', 'a'), ('var', 'b')), ('bin', o3, ('var', 'c'), ('var', 'd'))),
    lambda o1, o2, o3: ('bin', o1, ('var', 'a'), ('bin', o3, ('bin', o2, ('var', 'b'), ('var', 'c')), ('var', 'd'))),
    lambda o1, o2, o3: ('bin', o1, ('var', 'a'), ('bin', o2, ('var', 'b'), ('bin', o3, ('var', 'c'), ('var', 'd')))),
]


def items(tier):
    out = []
    i = 0
    for op in BIN:
        out.append((i, 'd2', op))
        i += 1
    out.append((i, 'd2u'))
    i += 1
    for o1 in BIN:
        out.append((i, 'triples', o1))
        i += 1
    for k in range(8):
        out.append((i, 'rep', k))
        i += 1
    if tier == 'thorough':
        for op in BIN:
            for side in (0, 1):
                out.append((i, 'd3', op, side))
                i += 1
    out.append((i, 'spec'))
    i += 1
    return out


def run_item(item, tier):
    st = Stats()
    kind = item[1]
    thorough = tier == 'thorough'
    leaves = [('var', 'a'), ('int', 1)] if thorough else [('var', 'a')]
    ist = ['int', 'bool', ('arr', 'byte', True)] if thorough else ['int', ('arr', 'byte', True)]
    if kind in ('d2', 'd2u'):
        lv = trees_depth(leaves, ['+', '-', 'not'], ist, BIN, 1)
        t1 = lv[0] + lv[1]
        if kind == 'd2':
            op = item[2]
            n = 0
            for a in t1:
                for b in t1:
                    check_tree(st, ('bin', op, a, b), f'depth-2 tree under {op}')
                    n += 1
            st.sample({'family': 'all depth<=2 trees with root', 'root': op, 'trees': n, 'example': pexpr(('bin', op, t1[-1], t1[-2]))})
        else:
            for a in t1:
                for u in ('+', '-', 'not'):
                    check_tree(st, ('un', u, a), 'unary over depth-1')
                for t in ist:
                    check_tree(st, ('is', a, t), 'is over depth-1')
                check_tree(st, ('len', a), 'length of depth-1')
                check_tree(st, ('idx', a, ('var', 'a')), 'index of depth-1')
                check_tree(st, ('idx', ('var', 'a'), a), 'depth-1 as index')
                check_tree(st, a, 'depth-1')
    elif kind == 'd3':
        # all depth-2 trees over leaf {a} (every operator) combined with a leaf under every binary operator: depth 3
        lv = trees_depth([('var', 'a')], ['+', '-', 'not'], ['int', ('arr', 'byte', True)], BIN, 1)
        t1 = lv[0] + lv[1]
        op, side = item[2], item[3]
        n = 0
        for o2 in BIN:
            for x in t1:
                for y in t1:
                    inner = ('bin', o2, x, y)
                    t = ('bin', op, inner, ('var', 'b')) if side == 0 else ('bin', op, ('var', 'b'), inner)
                    check_tree(st, t, 'depth-3 tree')
                    n += 1
        st.sample({'family': 'all depth-2 trees as one operand of', 'operator': op, 'side': side, 'trees': n})
    elif kind == 'triples':
        o1 = item[2]
        ops2 = BIN if thorough else BIN
        ops3 = BIN if thorough else LEVELREP + ['==', '/', '-']
        for o2 in ops2:
            for o3 in ops3:
                for sh in SHAPES3:
                    check_tree(st, sh(o1, o2, o3), 'operator triple')
        for o2 in BIN:
            check_tree(st, ('bin', o2, ('bin', o1, ('var', 'a'), ('var', 'b')), ('var', 'c')), 'operator pair')
            check_tree(st, ('bin', o1, ('var', 'a'), ('bin', o2, ('var', 'b'), ('var', 'c'))), 'operator pair')
        st.sample({'family': 'operator triples', 'first': o1, 'example': pexpr(SHAPES3[3](o1, '+', 'and'))})
    elif kind == 'rep':
        # one representative per precedence level, deeper trees; sharded by index mod 8
        depth = 3
        lv = trees_depth([('var', 'a')], ['-', 'not'], ['int'], LEVELREP, 2)
        t2 = lv[0] + lv[1] + lv[2]
        small = lv[0] + lv[1]
        n = 0
        k = item[2]
        cand = t2 if thorough else t2[::3]
        for idx, a in enumerate(cand):
            if idx % 8 != k:
                continue
            for b in small:
                for op in LEVELREP:
                    check_tree(st, ('bin', op, a, b), 'depth-3 representative tree')
                    check_tree(st, ('bin', op, b, a), 'depth-3 representative tree')
                    n += 2
            for u in ('-', 'not'):
                check_tree(st, ('un', u, a), 'depth-3 unary')
            check_tree(st, ('is', a, 'int'), 'depth-3 is')
            check_tree(st, ('len', a), 'depth-3 length')
            check_tree(st, ('idx', a, small[-1]), 'depth-3 index')
        st.sample({'family': 'one operator per precedence level, depth 3', 'shard': k, 'trees': n})
    elif kind == 'spec':
        lv = trees_depth([('var', 'a')], ['-', 'not'], ['int'], LEVELREP, 1)
        t1 = lv[0] + lv[1]
        for a in t1:
            for b in t1:
                check_tree(st, ('spec', a, b), '?? at top level')
        for a in t1[:6]:
            for op in LEVELREP:
                check_tree(st, ('bin', op, ('spec', a, ('var', 'b')), ('var', 'c')), '?? in parentheses as left operand')
                check_tree(st, ('bin', op, ('var', 'c'), ('spec', a, ('var', 'b'))), '?? in parentheses as right operand')
            check_tree(st, ('un', '-', ('spec', a, ('var', 'b'))), '?? under unary')
            check_tree(st, ('idx', ('var', 'c'), ('spec', a, ('var', 'b'))), '?? as index')
            check_tree(st, ('call', 'f', (('spec', a, ('var', 'b')), ('var', 'c'))), '?? as argument')
        # texts that must NOT parse as a chain
        for bad in ('a ?? b ?? c', 'a is int is byte', 'a ?? (b ?? c)', '(a ?? b) ?? c'):
            st.add('evaluations')
            r = hidc_parse(bad)
            if r[0] == 'crash':
                st.viol(f'parser crashed on {bad!r}: {r[1]}', {'text': bad})
            st.add('chains_checked')
    return st


def coverage(total, tier):
    return {
        'evaluations': total.get('evaluations', 0),
        'distinct_nontrivial': total.get('nontrivial', 0),
        'rule': 'every enumerated tree is distinct by construction; a tree is non-trivial when its minimal-parenthesis print differs from '
                'its fully parenthesised print, i.e. when precedence/associativity is what decides the grouping',
        'roundtrips': total.get('roundtrips', 0),
        'exhaustive': True,
        'bounds': {
            'depth2': 'all trees of depth <= 2 over leaves ' + ('{a, 1}' if tier == 'thorough' else '{a}') + ', 13 binary operators, unary + - not, '
                      'is ' + ('int/bool/byte[]' if tier == 'thorough' else 'int/byte[]') + ', postfix [..] and .length',
            'triples': 'all ordered operator pairs in both shapes and ' + ('all' if tier == 'thorough' else '13 x 13 x 8') + ' operator triples in all 5 binary tree shapes',
            'depth3': 'depth-3 trees over one operator per precedence level (* + < and or, unary - not, is int, postfix) with one side of depth <= 1'
                      + ('' if tier == 'thorough' else ' (every 3rd depth-2 subtree)'),
            'depth3_all': 'thorough: every depth-2 tree over leaf a (all 13 binary operators, unary, is, postfix) as left or right operand of every binary operator',
            'speculation': '?? at top level over all depth<=1 operand pairs and parenthesised inside every operator level, unary, index and call argument',
        },
    }


def vacuity(total, tier):
    if total.get('viol'):
        return None
    if not total.get('nontrivial'):
        return 'no tree needed precedence to be decided'
    return None


def replay(case):
    import ast
    st = Stats()
    if 'tree' in case:
        check_tree(st, ast.literal_eval(case['tree']), 'replay')
    else:
        r = hidc_parse(case['text'])
        if r[0] == 'crash':
            return [r[1]]
    return [v['msg'] for v in st.get('viol', [])]
