"""C09 -- operators and casts give the specified result at every boundary value.
One compiled program per (word size, operand types) prints every operator and cast in the
value position, the branch position and the !truth_is_defeat position (under try/undo, under
try/stop and inside a defeat function).  It is run on every pair of a boundary grid; the
expected output is computed here with Python integers (independently of the reference
interpreter, which is cross-checked against it)."""
from ..cases import Stats, compile_case, run_impl, ref_trace, std_coverage
from ..ref.parser import parse_program
from ..runner import HarnessError
from .. import svm

LEVEL = 'model_checking'

CMP = ['<', '<=', '>', '>=', '==', '!=']


BYTE_OPS = [('+', 300), ('-', 300), ('*', 258), ('/', 300), ('%', 300), ('/', 513), ('%', 256), ('+', 255), ('*', 255), ('/', 3), ('%', 7), ('/', 255), ('-', 1)]


def program(ta, tb):
    """ta, tb in int/byte.  Emits source; value lines are produced in a fixed order mirrored by expected()."""
    L = []
    L.append('int gA = 0; int gB = 0; byte gY = 0; byte[] gYs = [0, 0]; int big[300]; bool bigo[520];')
    L.append('empty !d(bool c) { write(\'(\'); !truth_is_defeat(c); write(\')\'); }')
    L.append(f'empty @is_you({ta} a, {tb} b) {{')
    for op in ('+', '-', '*'):
        L.append(f'writeln(a {op} b);')
    L.append('if (b != 0) { writeln(a / b); writeln(a % b); }')
    for op in CMP:
        L.append(f'writeln(a {op} b);')
    L.append('writeln(-a); writeln(+a); writeln(-b);')
    L.append('writeln(a is bool); writeln(b is bool); writeln(not (a is bool));')
    if ta == 'int':
        L.append('writeln((a is byte) is int); byte na = a is byte; writeln(na + 1);')
    else:
        L.append('writeln(a is int); int wa = a; writeln(wa - 1);')
    L.append('writeln((a is bool) is int); writeln((a < b) is int + (a == b) is byte);')
    L.append('bool p = a is bool; bool q = b is bool;')
    L.append('writeln(p and q); writeln(p or q); writeln(not p); writeln(p == q); writeln(p != q);')
    L.append('writeln((a < b) and (b < a)); writeln((a <= b) or (b != 0)); writeln((a is bool) == (b is bool));')
    # branch position
    for op in CMP:
        L.append(f"if (a {op} b) {{ write('T'); }} else {{ write('F'); }}")
    L.append("if (a is bool) { write('T'); } else { write('F'); }")
    L.append("if (not (a is bool) or q) { write('T'); } else { write('F'); }")
    L.append("if (p and not q) { write('T'); } else { write('F'); }")
    L.append("if (p == q) { write('T'); } else { write('F'); }")
    L.append("int n = 0; while (n < 3 and a + n < b) { n += 1; } write(n);")
    if ta == 'int':
        # truthiness of a narrowed value: the low byte decides, not the whole word
        L.append("if (a is byte) { write('T'); } else { write('F'); }")
        L.append("if (not (a is byte)) { write('T'); } else { write('F'); }")
        L.append("if ((a is byte) and q) { write('T'); } else { write('F'); }")
        L.append("if ((a is byte) or q) { write('T'); } else { write('F'); }")
        L.append("int m = 0; while ((a is byte) and m < 2) { m += 1; } write(m);")
        L.append("write((a is byte) is bool); write(((a is byte) is bool) is int);")
    L.append('writeln();')
    # the same casts with the operand held in a mutable global (another access path)
    L.append('gA = a; gB = b;')
    L.append('write(gA is bool); write(not (gA is bool)); write((gA is bool) is int); write(gA < gB); write((gA is byte) is int); write(-gA); bool gp = gA is bool; write(gp);')
    L.append("if (gA is bool) { write('T'); } else { write('F'); } writeln();")
    # unary plus on a global, and ?? with a literal as a condition (truthiness of the chosen operand, not equality with 1)
    L.append("write(+gA); write(' '); write(gB - +gA); write(' '); gB = +gA; write(gB); write(' '); write(- +gA); gB = b;")
    # narrowing of a value the compiler knows (the static length of a global array) used directly as a word
    L.append("write((big.length is byte) is int); write(' '); int bl = big.length is byte; write(bl); write(' '); write((big.length is byte) + 1); write((big.length is byte) == 44); "
             "if ((big.length is byte) < 100) { write('s'); } else { write('l'); } write((bigo.length is byte) + 0); write((bigo.length is byte) is bool); writeln();")
    L.append("if ((a is bool) ?? true) { write('T'); } else { write('F'); } if ((a is bool) ?? false) { write('T'); } else { write('F'); } "
             "if (not ((gA is bool) ?? true)) { write('T'); } else { write('F'); } write((a is bool) ?? true); writeln();")
    # compound assignment on byte targets: the operation is done on ints, the result is narrowed
    L.append('byte t = a is byte; byte[] ts = [a is byte, 1];')
    for op, k in BYTE_OPS:
        L.append(f't = a is byte; t {op}= {k}; write(t is int); write(\' \'); ts[0] = a is byte; ts[0] {op}= {k}; write(ts[0] is int); write(\' \'); '
                 f'gY = a is byte; gY {op}= {k}; write(gY is int); gYs[1] = a is byte; gYs[1] {op}= {k}; write(gYs[1] is int); write(\' \');')
    L.append('writeln();')
    # defeat position
    for op in CMP:
        L.append(f"try {{ !truth_is_defeat(a {op} b); write('n'); }} undo {{ write('d'); }}")
        L.append(f"try {{ !truth_is_defeat(a {op} b); write('n'); }} stop {{ write('d'); }}")
        L.append(f"try {{ !d(a {op} b); write('n'); }} undo {{ write('d'); }}")
    # the comparison decides between continuing and defeat: the guard on the taken side must be exact
    for op in CMP:
        L.append(f"try {{ if (a {op} b) {{ write('T'); }} else {{ !is_defeat(); }} }} undo {{ write('U'); }}")
        L.append(f"try {{ if (a {op} b) {{ !is_defeat(); }} else {{ write('F'); }} }} undo {{ write('U'); }}")
        L.append(f"try {{ bool v = a {op} b; !truth_is_defeat(not v); write('t'); }} undo {{ write('u'); }}")
        L.append(f"try {{ int k = 0; while (a {op} b) {{ k += 1; !truth_is_defeat(k > 1); }} write('w'); }} undo {{ write('u'); }}")
    L.append('writeln();')
    conds = ['a is bool', 'not (a is bool)', 'p and q', 'p or q', 'not p', 'p == q', '(a < b) or (b < a)', 'p',
             'not (p or q)', 'not (p and q)', 'not (not p)', 'not (a < b)', 'not ((a < b) or q)', 'not (p and (a <= b))']
    if ta == 'int':
        conds += ['(a is byte) is bool', 'not (a is byte)', '(a is byte) or (b is byte)']
    for c in conds:
        L.append(f"try {{ !truth_is_defeat({c}); write('n'); }} undo {{ write('d'); }}")
        L.append(f"try {{ !truth_is_defeat({c}); write('n'); }} stop {{ write('d'); }}")
    L.append('writeln();')
    L.append('}')
    return '\n'.join(L)


def expected(ta, tb, a, b, W):
    bits = 8 * W
    mask = (1 << bits) - 1

    def wrap(v):
        v &= mask
        return v - (1 << bits) if v >> (bits - 1) else v
    tf = lambda c: b'true' if c else b'false'    # noqa: E731
    out = []
    w = lambda v: out.append(str(wrap(v)).encode() + b'\n')     # noqa: E731
    wb = lambda c: out.append(tf(c) + b'\n')                    # noqa: E731
    w(a + b)
    w(a - b)
    w(a * b)
    if b != 0:
        w(a // b)
        w(a % b)
    cm = {'<': a < b, '<=': a <= b, '>': a > b, '>=': a >= b, '==': a == b, '!=': a != b}
    for op in CMP:
        wb(cm[op])
    w(-a)
    w(a)
    w(-b)
    wb(a != 0)
    wb(b != 0)
    wb(a == 0)
    if ta == 'int':
        w(a & 0xFF)
        w((a & 0xFF) + 1)
    else:
        w(a)
        w(a - 1)
    w(int(a != 0))
    w(int(a < b) + int(a == b))
    p, q = a != 0, b != 0
    for c in (p and q, p or q, not p, p == q, p != q, (a < b) and (b < a), (a <= b) or (b != 0), p == q):
        wb(c)
    br = [cm[op] for op in CMP] + [p, (not p) or q, p and not q, p == q]
    out.append(b''.join(b'T' if c else b'F' for c in br))
    n = 0
    while n < 3 and wrap(a + n) < b:
        n += 1
    out.append(str(n).encode())
    if ta == 'int':
        lb = (a & 0xFF) != 0
        out.append(b''.join(b'T' if c else b'F' for c in (lb, not lb, lb and q, lb or q)))
        out.append(b'2' if lb else b'0')
        out.append(tf(lb) + (b'1' if lb else b'0'))
    out.append(b'\n')
    out.append(tf(a != 0) + tf(a == 0) + str(int(a != 0)).encode() + tf(a < b) + str(a & 0xFF).encode() + str(wrap(-a)).encode() + tf(a != 0))
    out.append((b'T' if a != 0 else b'F') + b'\n')
    out.append(f'{a} {wrap(b - a)} {a} {wrap(-a)}'.encode())
    out.append(b'44 44 45trues8true\n')
    out.append((b'T' if a != 0 else b'F') * 2 + (b'F' if a != 0 else b'T') + tf(a != 0) + b'\n')
    lowb = a & 0xFF
    for op, k in BYTE_OPS:
        v = {'+': lowb + k, '-': lowb - k, '*': lowb * k, '/': lowb // k, '%': lowb % k}[op] & 0xFF
        out.append(f'{v} {v} {v}{v} '.encode())
    out.append(b'\n')
    d = []
    for op in CMP:
        c = cm[op]
        d.append(b'd' if c else b'n')
        d.append(b'd' if c else b'n')
        d.append(b'd' if c else b'()n')
    for op in CMP:
        c = cm[op]
        d.append(b'T' if c else b'U')
        d.append(b'U' if c else b'F')
        d.append(b't' if c else b'u')
        d.append(b'u' if c else b'w')
    d.append(b'\n')
    dc = [p, not p, p and q, p or q, not p, p == q, a != b, p,
          not (p or q), not (p and q), p, not (a < b), not ((a < b) or q), not (p and (a <= b))]
    if ta == 'int':
        lb = (a & 0xFF) != 0
        dc += [lb, not lb, lb or ((b & 0xFF) != 0)]
    for c in dc:
        d.append(b'd' if c else b'n')
        d.append(b'd' if c else b'n')
    out.append(b''.join(d) + b'\n')
    return b''.join(out)


def grid(W, t, tier):
    if t == 'byte':
        vals = [0, 1, 2, 3, 7, 8, 9, 10, 126, 127, 128, 129, 200, 254, 255]
        return vals
    bits = 8 * W
    mx = (1 << (bits - 1)) - 1
    s = {0, 1, -1, 2, -2, 3, 10, -10, 127, 128, -128, -129, 255, 256, 257, -255, -256, -257, mx, -mx - 1, mx - 1, -mx,
         mx // 2, -(mx // 2), 1 << (bits - 2), -(1 << (bits - 2))}
    for k in range(1, W):
        for d in (-1, 0, 1):
            s.add((1 << (8 * k)) + d)
            s.add(-(1 << (8 * k)) + d)
    for k in (7, 15, 23):
        if k < bits - 1:
            s.add((1 << k) - 1)
            s.add(1 << k)
    vals = sorted(v for v in s if -mx - 1 <= v <= mx)
    if tier == 'quick' and len(vals) > 44:
        # keep the values nearest to zero and to the extremes
        vals = sorted(sorted(vals, key=abs)[:22] + sorted(vals, key=abs)[-22:])
    return vals



# ---- mixed: one run-time operand, one compile-time constant (literal and const variable): the compiler sees half of the operation
def mixed_consts(W):
    bits = 8 * W
    mx = (1 << (bits - 1)) - 1
    return [0, 1, 2, 3, 8, 127, 128, 255, 256, 257, 300, 512, 65535 & mx, mx - 1, mx, -1, -2, -128, -255, -256, -257, -300, -mx, -mx - 1, 1 << (bits - 2), -(1 << (bits - 2))]


def _lit(k):
    return str(k) if k >= 0 else f'-{-k}'


def mixed_program(ta, K, W):
    kt = _lit(K)
    L = [f'const int KC = {kt};', 'byte gY = 0;', 'byte wd(int n) { return (n % 100 + 101) is byte; }',
         'int deep(int d) { int p = 0 - 1; int q = 0 - 2; int[] r = [0 - 3, 0 - 4]; if (d > 0) { return deep(d - 1) + p + q + r[1]; } return p; }',
         'empty h2w(int u, int v) { write(u); write(\',\'); write(v); }',
         f'empty @is_you({ta} a) {{', 'byte t = 0; byte[] ts = [0, 0];',
         # a byte result widened to a word in a slot that deeper activations have filled with ones before
         "writeln(deep(3)); int w1 = wd(a); write(w1); write(' '); h2w(wd(a), wd(a + 1)); int tq[wd(a) % 4 + 1]; write(tq.length); writeln(deep(2) + wd(a));"]
    for k in (kt, 'KC', f'({kt})'):
        for op in ('+', '-', '*'):
            L.append(f"write(a {op} {k}); write(' '); write({k} {op} a); write(' ');")
        if K != 0:
            L.append(f"write(a / {k}); write(' '); write(a % {k}); write(' ');")
        L.append(f"if (a != 0) {{ write({k} / a); write(' '); write({k} % a); write(' '); }}")
        for op in CMP:
            L.append(f'write(a {op} {k}); write({k} {op} a);')
        L.append(f"if (a == {k}) {{ write('E'); }} if ({k} != a) {{ write('N'); }} if (a < {k}) {{ write('L'); }} if ({k} <= a) {{ write('G'); }}")
        L.append(f"try {{ !truth_is_defeat(a == {k}); write('n'); }} undo {{ write('d'); }} try {{ !truth_is_defeat({k} > a); write('n'); }} stop {{ write('d'); }}")
        L.append('writeln();')
    # compound assignment with the constant, and with a run-time value narrowed on the spot, on byte targets
    src_b = 'a' if ta == 'byte' else '(a is byte)'
    for op in ('+', '-', '*'):
        L.append(f"t = {src_b}; t {op}= {kt}; write(t is int); write(' '); ts[1] = {src_b}; ts[1] {op}= ({kt}); write(ts[1] is int); write(' '); gY = {src_b}; gY {op}= {kt}; write(gY is int); write(' ');")
    if K != 0:
        L.append(f"t = {src_b}; t /= {kt}; write(t is int); write(' '); ts[1] = {src_b}; ts[1] %= {kt}; write(ts[1] is int); write(' ');")
    if ta == 'int':
        L.append(f"if ((a is byte) is bool) {{ t = 200; t /= a is byte; write(t is int); write(' '); ts[0] = 201; ts[0] /= a is byte; write(ts[0] is int); write(' '); "
                 f"ts[1] = 202; ts[1] %= a is byte; write(ts[1] is int); write(' '); gY = 203; gY %= a is byte; write(gY is int); int w = {kt}; w /= a is byte; write(w); }}")
    L.append('writeln(); }')
    return '\n'.join(L)

COMBOS = [('int', 'int'), ('byte', 'byte'), ('byte', 'int'), ('int', 'byte')]


def items(tier):
    out = []
    Ws = [2, 3, 4, 8] if tier == 'thorough' else [2, 3, 4]
    i = 0
    for W in Ws:
        for ta, tb in COMBOS:
            ga = grid(W, ta, tier)
            for a in ga:
                out.append((i, 'B', W, ta, tb, a))
                i += 1
    # literal operands (the same operators on constants, which the compiler may evaluate itself)
    for W in Ws:
        for a in lit_values(W):
            out.append((i, 'L', W, a))
            i += 1
    # one operand known at compile time, the other not
    for W in Ws:
        ks = mixed_consts(W)
        if tier == 'quick':
            ess = [255, 256, 300, -1, -(1 << (8 * W - 1)), (1 << (8 * W - 1)) - 1]
            ks = (ks[::2] + [k for k in ess if k not in ks[::2]]) if W == 2 else ess
        for ta in ('int', 'byte'):
            for K in ks:
                out.append((i, 'M', W, ta, K))
                i += 1
    # a run-time bool (and byte / int) against a LITERAL of its type with == and !=, in every position
    for W in (Ws if tier == 'thorough' else [2]):
        out.append((i, 'BL', W))
        i += 1
    # one run-time operand and two compile-time constants (re-association across a wrap)
    from ..gen import chain
    for W in (Ws if tier == 'thorough' else [2, 3]):
        for n, (form, o1, k1) in enumerate(chain.chain_items(W, tier)):
            if tier == 'quick' and W == 3 and n % 4 != 1:
                continue
            out.append((i, 'CH', W, form, o1, k1))
            i += 1
    # unary / casts: every 16-bit value, sharded
    if tier == 'thorough':
        step = 1024
        for lo in range(-32768, 32768, step):
            out.append((i, 'U', 2, lo, lo + step))
            i += 1
    else:
        for lo in (-32768, -300, -16, 112, 240, 32752):
            out.append((i, 'U', 2, lo, lo + 32 if lo + 32 <= 32768 else 32768))
            i += 1
    return out


def bool_literal_program():
    L = ['bool gb = false; byte gy = 0;', "empty !d(bool c) { write('('); !truth_is_defeat(c); write(')'); }", 'bool id(bool v) { return v; }',
         'empty @is_you(int a, int b) {', 'bool p = a is bool; bool q = b is bool; byte y = b is byte; bool[] bs = [p, q, true]; gb = p; gy = y;']
    subjects = [('p', ['true', 'false']), ('q', ['true', 'false']), ('gb', ['true', 'false']), ('bs[0]', ['true', 'false']), ('id(p)', ['true', 'false']), ('(a > 0)', ['true', 'false']),
                ('(not p)', ['true', 'false']), ('(p and q)', ['true', 'false']), ('y', ['0', '1', '255', "'a'"]), ('gy', ['0', '255']), ('a', ['0', '1', '-1', '256'])]
    n = 0
    for subj, lits in subjects:
        for lit in lits:
            for op in ('==', '!='):
                for e in (f'{subj} {op} {lit}', f'{lit} {op} {subj}'):
                    n += 1
                    L.append(f"writeln({e}); if ({e}) {{ write('T'); }} else {{ write('F'); }} if (not ({e})) {{ write('N'); }} bool v{n} = {e}; write(v{n}); "
                             f"if (({e}) and q) {{ write('A'); }} if (({e}) or q) {{ write('O'); }} int k{n} = 0; while ({e} and k{n} < 2) {{ k{n} += 1; }} write(k{n}); write(({e}) is int); "
                             f"try {{ !truth_is_defeat({e}); write('c'); }} undo {{ write('u'); }} try {{ !d({e}); write('c'); }} stop {{ write('s'); }} writeln();")
    L.append('}')
    return '\n'.join(L)


def lit_values(W):
    bits = 8 * W
    mx = (1 << (bits - 1)) - 1
    return [0, 1, 2, 7, 255, 256, mx - 1, mx, mx + 1, mx + 2, 2 * mx + 1, 2 * mx + 2, 2 * mx + 3]


def literal_program(a, W):
    L = ['empty @is_you() {']
    for b in lit_values(W):
        for op in ('+', '-', '*'):
            L.append(f'write({a} {op} {b}); write(\' \');')
        if b % (1 << (8 * W)) != 0:
            L.append(f'write({a} / {b}); write(\' \'); write({a} % {b}); write(\' \');')
        for op in CMP:
            L.append(f'write({a} {op} {b});')
        L.append(f"if ({a} < {b}) {{ write('T'); }} else {{ write('F'); }} write(-{a} < {b}); write(({a} is byte) is int); write({a} is bool);")
        L.append(f"try {{ !truth_is_defeat({a} + 1 > {b}); write('n'); }} undo {{ write('d'); }}")
        L.append('writeln();')
    L.append('}')
    return '\n'.join(L)


def literal_expected(a, W):
    bits = 8 * W
    mask = (1 << bits) - 1

    def wrap(v):
        v &= mask
        return v - (1 << bits) if v >> (bits - 1) else v
    tf = lambda c: 'true' if c else 'false'     # noqa: E731
    out = []
    wa = wrap(a)
    for b in lit_values(W):
        wb = wrap(b)
        s = ''
        for v in (wa + wb, wa - wb, wa * wb):
            s += f'{wrap(v)} '
        if b % (1 << bits) != 0:
            s += f'{wrap(wa // wb)} {wrap(wa % wb)} '
        cm = {'<': wa < wb, '<=': wa <= wb, '>': wa > wb, '>=': wa >= wb, '==': wa == wb, '!=': wa != wb}
        for op in CMP:
            s += tf(cm[op])
        s += ('T' if wa < wb else 'F') + tf(wrap(-wa) < wb) + str(wa & 0xFF) + tf(wa != 0)
        s += 'd' if wrap(wa + 1) > wb else 'n'
        out.append(s + '\n')
    return ''.join(out).encode()


U_SRC = """
empty @is_you(int lo, int n) {
    int i = lo;
    for (int k = 0; k < n; k += 1) {
        write(-i); write(' '); write((i is byte) is int); write(' '); write(i is bool); write(' ');
        write(not (i is bool)); write(' '); write(i * i); write(' '); write(i / 7); write(' '); write(i % 7); write(' ');
        write(i < 0); write(' '); write((i is byte) < 128); writeln();
        i += 1;
    }
}
"""


def expected_U(lo, n, W=2):
    bits = 8 * W
    mask = (1 << bits) - 1

    def wrap(v):
        v &= mask
        return v - (1 << bits) if v >> (bits - 1) else v
    tf = lambda c: 'true' if c else 'false'     # noqa: E731
    out = []
    i = lo
    for _ in range(n):
        out.append(f'{wrap(-i)} {i & 0xFF} {tf(i != 0)} {tf(i == 0)} {wrap(i * i)} {i // 7} {i % 7} {tf(i < 0)} {tf((i & 0xFF) < 128)}\n')
        i = wrap(i + 1)
    return ''.join(out).encode()


_cache = {}


def _compiled(key, src, W):
    if key not in _cache:
        lines, err = compile_case(src, W, 64)
        _cache[key] = (lines, err, parse_program(src))
    return _cache[key]


def run_item(item, tier):
    st = Stats()
    if item[1] == 'B':
        _, _, W, ta, tb, a = item
        src = program(ta, tb)
        lines, err, prog = _compiled((ta, tb, W), src, W)
        if err:
            st.viol(f'operator program not compiled: {err}', {'kind': 'ops', 'ta': ta, 'tb': tb, 'W': W, 'a': a, 'b': 0})
            return st
        for b in grid(W, tb, tier):
            _one(st, src, prog, lines, W, ta, tb, a, b)
        st.sample({'types': [ta, tb], 'W': W, 'a': a, 'b_values': len(grid(W, tb, tier))})
    elif item[1] == 'M':
        from ..cases import run_program
        _, _, W, ta, K = item
        src = mixed_program(ta, K, W)
        argvs = [[str(v)] for v in grid(W, ta, tier)]
        run_program(st, src, argvs, [W], f'run-time {ta} operand against the constant {K}')
        st.add('distinct_nontrivial', len(argvs))
        st.sample({'family': 'mixed', 'operand_type': ta, 'constant': K, 'W': W, 'operand_values': len(argvs)})
    elif item[1] == 'BL':
        from ..cases import run_program
        W = item[2]
        src = bool_literal_program()
        argvs = [[str(a), str(b)] for a in (0, 1, 2, -1, 256) for b in (0, 1, 255)]
        run_program(st, src, argvs, [W], 'run-time bool/byte/int compared with a literal (== !=, both orders, value / branch / loop / not / and-or / !truth_is_defeat)')
        st.add('distinct_nontrivial', len(argvs))
    elif item[1] == 'CH':
        from ..cases import run_program
        from ..gen import chain
        _, _, W, form, o1, k1 = item
        src = chain.chain_program(form, o1, k1, W)
        vals = chain.xs(W)
        if tier == 'quick':
            vals = vals[::2] + [v for v in vals[-3:] if v not in vals[::2]]
        run_program(st, src, [[str(v)] for v in vals], [W], f'CHAIN[{chain.FORMS[form]}; op1 {o1}; K1 {k1}; every op2 x K2]')
        st.add('distinct_nontrivial', len(vals))
        st.sample({'family': 'CHAIN', 'shape': chain.FORMS[form], 'op1': o1, 'K1': k1, 'W': W, 'x_values': vals})
    elif item[1] == 'L':
        _, _, W, a = item
        src = literal_program(a, W)
        case = {'kind': 'lit', 'a': a, 'W': W}
        st.add('evaluations', len(lit_values(W)))
        r, err = run_impl(src, [], W, 64)
        if err:
            st.viol(f'literal operands a={a} at W={W}: {err}', case)
        else:
            st.vm(r)
            exp = literal_expected(a, W)
            if r.outcome != 'loop' or r.flags != ['win'] or r.output != exp:
                got = r.output.split(b'\n')
                want = exp.split(b'\n')
                k = next((j for j in range(min(len(got), len(want))) if got[j] != want[j]), min(len(got), len(want)))
                st.viol(f'literal operands a={a}, b={lit_values(W)[k] if k < len(lit_values(W)) else "?"} at W={W}: expected {want[k] if k < len(want) else None!r} '
                        f'observed {got[k] if k < len(got) else None!r} ({r.outcome} {r.flags})', case)
            else:
                st.add('traces_validated_against_impl')
                st.add('nontrivial', len(lit_values(W)))
        st.sample({'literal_operand_a': a, 'W': W, 'b_values': lit_values(W)})
    else:
        _, _, W, lo, hi = item
        lines, err, prog = _compiled(('U', W), U_SRC, W)
        if err:
            st.viol(f'unary program not compiled: {err}', {'kind': 'unary', 'lo': lo, 'n': hi - lo})
            return st
        _unary(st, lines, lo, hi - lo)
        st.sample({'unary_range': [lo, hi], 'W': W})
    return st


def _one(st, src, prog, lines, W, ta, tb, a, b):
    case = {'kind': 'ops', 'ta': ta, 'tb': tb, 'W': W, 'a': a, 'b': b}
    exp = expected(ta, tb, a, b, W)
    st.add('evaluations')
    r, err = run_impl(src, [str(a), str(b)], W, 64, lines=lines, mon=svm.Monitor(scope=False))
    if err:
        st.viol(f'{err}', case)
        return
    st.vm(r)
    st.count('dims', f'W{W}/{ta}x{tb}')
    if r.outcome != 'loop' or r.flags != ['win'] or r.output != exp:
        st.viol(f'operators on {ta} a={a}, {tb} b={b} at W={W}: expected {exp!r} observed {r.output!r} flags={r.flags} {r.outcome} {r.trap or ""}', case)
        return
    if r.violations:
        st.viol(f'monitor: {r.violations[0]["msg"]}', case)
        return
    st.add('traces_validated_against_impl')
    st.add('nontrivial' if (a != b and b != 0) else 'trivial')
    # cross-check the reference interpreter against the same expectation on a sparse subset
    if (a + b) % 7 == 0:
        status, tr, _ = ref_trace(prog, [str(a), str(b)], W)
        out = bytes(e[1] for e in tr[0] if e[0] == 'y')
        if out != exp:
            raise HarnessError(f'reference interpreter and Python oracle disagree on a={a} b={b} W={W}: {out!r} vs {exp!r}')
        st.add('ref_crosschecks')


def _unary(st, lines, lo, n):
    case = {'kind': 'unary', 'lo': lo, 'n': n}
    exp = expected_U(lo, n)
    st.add('evaluations', n)
    r, err = run_impl(U_SRC, [str(lo), str(n)], 2, 64, lines=lines, max_steps=20_000_000)
    if err:
        st.viol(f'{err}', case)
        return
    st.vm(r)
    st.count('dims', 'W2/unary')
    if r.outcome != 'loop' or r.output != exp:
        got = r.output.split(b'\n')
        want = exp.split(b'\n')
        k = next((i for i in range(min(len(got), len(want))) if got[i] != want[i]), min(len(got), len(want)))
        st.viol(f'unary/cast line for i={lo + k}: expected {want[k] if k < len(want) else None!r} observed {got[k] if k < len(got) else None!r} ({r.outcome} {r.trap or ""})', case)
        return
    st.add('traces_validated_against_impl')
    st.add('nontrivial', n)


def coverage(total, tier):
    cov = std_coverage(total, {
        'binary': 'every operator/cast in value, branch and !truth_is_defeat (try/undo, try/stop, inside a defeat function) positions '
                  'for int x int, byte x byte, byte x int, int x byte on all pairs of the boundary grid '
                  '(0, +-1, +-2, 127/128, 255/256/257, +-2^(8k)+-1, min, max, min+1, max-1, ...: '
                  + ('full grid' if tier == 'thorough' else 'at most 44 values per operand') + ') at W in '
                  + ('2,3,4,8' if tier == 'thorough' else '2,3,4'),
        'mixed': 'one run-time operand (int or byte, whole grid) against a compile-time constant written as literal, const variable and parenthesised literal ('
                 + ('26 constants per word size' if tier == 'thorough' else '17 constants at W=2, 6 at W=3,4') + ' incl. min, max, +-255/256/257/300, 2^(n-2)): + - * / % and all comparisons in both orders, as value, branch and '
                 '!truth_is_defeat argument; op= on byte local / element / global with the constant and with a run-time value narrowed on the spot; oracle: reference interpreter',
        'chains': 'one run-time int and two compile-time constants in five shapes (x op1 K1 op2 K2; K1 op1 x op2 K2; K2 op2 (x op1 K1); (K1 op1 x) op2 K2; the same through const variables), op1 in + - * / %, op2 in '
                  '+ - * / % and the six comparisons, K1 ' + ('and K2 over 19 constants' if tier == 'thorough' else 'over 8 and K2 over 19 constants') + ' on both sides of every wrap (1, 2, 3, 7, 10, +-1, +-2, 255..257, 300, -256, 2^(n/2), 2^(n/2)+1, 2^(n-2), max, max-1, min, min+1), x over '
                  + ('23' if tier == 'thorough' else '13') + ' boundary values; oracle: reference interpreter (re-association of the constants is only valid when nothing wraps)',
        'bool_literals': 'run-time bool from 8 sources (local, global, element, call, comparison, not, and) and byte / int values against a literal of their type with == and != in both orders, as value, branch, negated branch, '
                         'stored value, and / or operand, loop condition, cast and !truth_is_defeat argument (try/undo and inside a defeat function); oracle: reference interpreter',
        'literals': 'the same operators with both operands written as literals (13 values per word size incl. max, max+1, 2^n-1, 2^n, 2^n+1): all 169 pairs',
        'unary': ('all 65536 values' if tier == 'thorough' else '6 windows of 32 values around the boundaries') + ' at W=2 for - , is byte, is bool, not, *, /, %, <',
    })
    cov['ref_crosschecks'] = total.get('ref_crosschecks', 0)
    cov['distinct_nontrivial'] = total.get('nontrivial', 0)
    return cov


def vacuity(total, tier):
    if total.get('traces_validated_against_impl', 0) == 0:
        return 'nothing validated'
    return None


def replay(case):
    st = Stats()
    if case.get('kind') == 'conformance':
        from ..cases import replay_conformance
        return replay_conformance(case)
    if case['kind'] == 'lit':
        st2 = run_item((0, 'L', case['W'], case['a']), 'quick')
        return [v['msg'] for v in st2.get('viol', [])]
    if case['kind'] == 'ops':
        src = program(case['ta'], case['tb'])
        lines, err = compile_case(src, case['W'], 64)
        if err:
            return [str(err)]
        _one(st, src, parse_program(src), lines, case['W'], case['ta'], case['tb'], case['a'], case['b'])
    else:
        lines, err = compile_case(U_SRC, 2, 64)
        if err:
            return [str(err)]
        _unary(st, lines, case['lo'], case['n'])
    return [v['msg'] for v in st.get('viol', [])]
