"""C14 -- compile-time evaluation is invisible.
Metamorphic twins: every enumerated constant expression is compiled in constant form
(literals in place; also through a const local, a const global and a global initialiser) and
in variable form (every literal replaced by a non-const local holding the same value); both
are run on the VM and must print the same thing at every word size; so must the two mixed
forms in which only the literals at even (odd) positions are variables.  The reference
interpreter supplies the expected value, so that the report says which side is wrong.  An
expression whose evaluation divides by zero is handled alone: its constant form may be
rejected at compile time, otherwise it must fault like its variable form."""
import itertools

from ..cases import Stats, compile_case, run_impl, ref_trace, std_coverage
from ..ref.parser import parse_program, parse_expr
from ..ref import interp, types as rtypes
from .. import svm

LEVEL = 'model_checking'


def consts(W, reduced=False):
    bits = 8 * W
    big = [(1 << (bits - 1)) - 1, 1 << (bits - 1), (1 << bits) - 1, 1 << bits]
    if reduced:
        return [0, 1, 2, 255, 256] + big
    return [0, 1, 2, 3, 7, 10, 127, 128, 255, 256, 257] + big + [(1 << bits) + 1, (1 << (bits - 1)) + 1]


ARITH = ['+', '-', '*', '/', '%']
CMP = ['==', '!=', '<', '<=', '>', '>=']


def depth1(cs, chars=("'a'", "'\\xff'")):
    """-> list of (type, source)"""
    out = []
    nums = [str(c) for c in cs] + list(chars)
    for a in nums:
        out.append(('byte' if a.startswith("'") else 'int', a))
    for a in nums:
        for b in nums:
            for op in ARITH:
                out.append(('int', f'({a} {op} {b})'))
            for op in CMP:
                out.append(('bool', f'({a} {op} {b})'))
    for a in nums:
        for b in nums:
            for op in ('/', '%', '<', '==', '>='):
                t = 'int' if op in '/%' else 'bool'
                out.append((t, f'((-{a}) {op} {b})'))
                out.append((t, f'({b} {op} (-{a}))'))
        out.append(('bool', f'((-{a}) is bool)'))
        out.append(('int', f'((-{a}) is byte) is int'))
        out.append(('int', f'(-(-{a}))'))
        out.append(('bool', f'((-(-{a})) < 0)'))
    for a in nums:
        out.append(('int', f'(-{a})'))
        out.append(('byte', f'({a} is byte)'))
        out.append(('bool', f'({a} is bool)'))
        out.append(('int', f'(({a} is byte) is int)'))
        out.append(('int', f'(({a} is bool) is int)'))
    for a in ('true', 'false'):
        for b in ('true', 'false'):
            for op in ('and', 'or', '==', '!='):
                out.append(('bool', f'({a} {op} {b})'))
        out.append(('bool', f'(not {a})'))
        out.append(('int', f'({a} is int)'))
    return out


def depth2(cs, ops=ARITH, cmps=CMP):
    inner = []
    nums = [str(c) for c in cs]
    for a in nums:
        for b in nums:
            for op in ops:
                inner.append(f'({a} {op} {b})')
    out = []
    for i in inner:
        for c in nums:
            for op in ops:
                out.append(('int', f'({i} {op} {c})'))
                out.append(('int', f'({c} {op} {i})'))
            for op in cmps:
                out.append(('bool', f'({i} {op} {c})'))
        out.append(('byte', f'({i} is byte)'))
        out.append(('bool', f'({i} is bool)'))
        out.append(('int', f'(({i} is byte) is int)'))
        out.append(('int', f'(4 / (({i} is byte) + 1))'))
        out.append(('bool', f'(({i} > 0) and ({i} != 1))'))
        out.append(('bool', f'(not ({i} is bool) or ({i} < 0))'))
    return out


def chains(W):
    """Depth 4-5 chains and balanced trees over one operator per class and 4 constants."""
    bits = 8 * W
    cs = [str(c) for c in (1, 255, (1 << (bits - 1)) - 1, 1 << bits)]
    out = []
    for ops in itertools.product(['+', '*', '/', '-'], repeat=3):
        for perm in itertools.permutations(cs, 4):
            a, b, c, d = perm
            out.append(('int', f'((({a} {ops[0]} {b}) {ops[1]} {c}) {ops[2]} {d})'))
            out.append(('int', f'(({a} {ops[0]} {b}) {ops[1]} ({c} {ops[2]} {d}))'))
            out.append(('bool', f'(((({a} {ops[0]} {b}) {ops[1]} {c}) is byte) < ({d} {ops[2]} 1))'))
    return out


EFFECT_PRE = """
int g = 0;
int f(int x) { g += 1; write('f'); write(x); write(' '); return x + g; }
byte q(int x) { write('q'); return (x + 65) is byte; }
const int KM = 0 - 1;
const bool QUIET = true;
const bool VERBOSE = false;
const int[] GT = [7, 8];
string GS = "glob";
int[] GM = [10, 20, 30];
bool[] GMB = [false, true];
int bumpg() { GM[0] = 99; GM[1] += 1; GMB[0] = true; return 0; }
int twice() { int[] t = [3, 4]; t[1] += 1; return t[1]; }
int bump(int[] a) { a[0] += 1; return a[0]; }
int loopsum() { int s = 0; for (int i = 0; i < 3; i += 1) { int[] t = [10, 20]; t[0] += i + 1; s += t[0]; byte[] u = ['a']; u[0] += 1; s += u[0]; } return s; }
"""
# expressions part of which the compiler could evaluate in advance although another part has effects or can fault
EFFECT_EXPRS = [
    '[f(1), 2].length', '[f(1) + 0, 2].length', '[f(1) - f(2), 3, 4].length', "[q(1), 'b'].length", "[q(1) is int, 2].length",
    '[1, 7 / z].length', '[tab[ten]].length', '[1, 2, 3].length', '"abc".length', '[f(1), 2][1]', '[f(1), f(2)][0]', '[1, 7 / z][0]',
    '([f(1)] is bool) is int', '([] is bool) is int', '("" is bool) is int', '(["x"][0] is bool) is int', '[1, 2, 3][3]', '[1, 2, 3][ten - 8]',
    '"abc"[1] is int', '"abc"[ten] is int', '(f(1) * 0)', '(0 * f(1))', '(f(1) - f(1))', '((f(1) > 0) or true) is int', '((f(1) > 0) and false) is int',
    '(true or (f(1) > 0)) is int', '(false and (f(1) > 0)) is int', '(0 / f(1))', '(f(1) % 1)', '(f(3) / 1)', '(1 / (f(1) - f(1) + 1 - 1 + z))',
    '(z * (7 / z))', '(0 * (7 / z))', '((7 / z) * 0)', '(f(1) ?? f(1))', '(5 ?? 5)', '(f(1) ?? 2)', '(2 ?? f(0))',
    '[f(1), 2].length + [f(2)].length', '(not ([f(1)] is bool)) is int',
    # constant indices must be checked like run-time ones
    '[1, 2, 3][-1]', '[1, 2, 3][0 - 1]', 'tab[-1]', 'tab[KM]', 'tab[3]', 'tab[KM + 4]', 'GT[-1]', 'GT[KM]', 'GT[2]', '"abc"[-1] is int', '"abc"[KM] is int', 'GS[KM] is int',
    # an absorbing constant on the right does not make the left operand disappear: its faults are effects (no call needed)
    '((tab[ten] > 15) and false) is int', '((7 / z < 0) or true) is int', '((tab[z] > 15) and false) is int', '((60 / z < 0) or QUIET) is int',
    '((tab[ten] > 15) and VERBOSE) is int', '((GS[ten] is int > 1) and VERBOSE) is int', '(false and (tab[ten] > 1)) is int', '(true or (7 / z > 0)) is int',
    '(VERBOSE and (tab[ten] > 1)) is int', '(QUIET or (7 / z > 0)) is int', '(0 * tab[ten])', '(tab[ten] - tab[ten])', '((GS[ten] is int) * 0)', '(tab[ten] % 1)',
    '(3 ?? tab[ten])', '(3 ?? (7 / z))', '(KM ?? GT[ten])', '(QUIET ?? (7 / z > 0)) is int',
    # a mutable global array is not a table of constants, whatever its initialiser and however constant the index
    '(GM[0] + bumpg() + GM[0])', '(bumpg() + GM[1] + GM[KM + 2])', '(bumpg() + (GMB[0] is int))', '(GM[2] + GM.length)',
    # a mutable literal with constant elements is a fresh array each time it is evaluated
    'twice() + twice()', 'bump([5, 6]) + bump([5, 6])', 'loopsum()',
]


def effect_program(exprs):
    body = ' '.join(f"write('<'); write({e}); write('>');" for e in exprs)
    return EFFECT_PRE + f'empty @is_you(int z, int ten) {{ int[] tab = [1, 2, 3]; {body} writeln(g); }}\n'


def show(t, e):
    return f'writeln({e} is int);' if t == 'byte' else f'writeln({e});'


def variable_form(t, e, pattern=None):
    """Replace every literal of e by a fresh non-const local holding the same value; with pattern 0 / 1 only the
    literals at even / odd positions are replaced (the compiler then knows one side of an operation and not the other)."""
    ast = parse_expr(e)
    decls = []
    seen = [0]

    def keep(x):
        seen[0] += 1
        return pattern is not None and (seen[0] - 1) % 2 != pattern

    def lit_text(x):
        if x[0] == 'int':
            return str(x[1])
        if x[0] == 'chr':
            return "'\\x%02x'" % x[1]
        return 'true' if x[1] else 'false'

    def walk(x):
        k = x[0]
        if k in ('int', 'chr', 'bool') and keep(x):
            return lit_text(x)
        if k == 'int':
            n = f'v{len(decls)}'
            decls.append(f'int {n} = {x[1]};')
            return n
        if k == 'chr':
            n = f'v{len(decls)}'
            decls.append(f"byte {n} = '\\x{x[1]:02x}';")
            return n
        if k == 'bool':
            n = f'v{len(decls)}'
            decls.append(f'bool {n} = {"true" if x[1] else "false"};')
            return n
        if k == 'un':
            return f'({x[1]} {walk(x[2])})'
        if k == 'bin':
            return f'({walk(x[2])} {x[1]} {walk(x[3])})'
        if k == 'is':
            return f'({walk(x[1])} is {x[2]})'
        raise ValueError(x)
    body = walk(ast)
    return ' '.join(decls) + ' ' + show(t, body)


def wrapped_eval(t, e, W):
    """Reference evaluation (word-wrapping semantics).  -> ('ok', printed line) or ('fault', None)"""
    src = f'empty @is_you() {{ {show(t, e)} }}\n'
    st, tr, _ = ref_trace(parse_program(src), [], W)
    out = bytes(x[1] for x in tr[0] if x[0] == 'y')
    if ('f', 'division_by_zero') in tr[0]:
        return 'fault', None
    return 'ok', out


BATCH = 40


def items(tier):
    out = []
    i = 0
    Ws = [2, 3, 4]
    for k in range(len(EFFECT_EXPRS)):
        out.append((i, 'fx', 2, k, k + 1))
        i += 1
    for W in Ws:
        out.append((i, 'cli', W, 0, 0))
        i += 1
    for W in Ws:
        d1 = depth1(consts(W))
        for lo in range(0, len(d1), 400):
            out.append((i, 'd1', W, lo, lo + 400))
            i += 1
        if tier == 'thorough':
            d2 = depth2(consts(W, True))
            for lo in range(0, len(d2), 800):
                out.append((i, 'd2', W, lo, lo + 800))
                i += 1
            ch = chains(W)
            for lo in range(0, len(ch), 800):
                out.append((i, 'ch', W, lo, lo + 800))
                i += 1
        else:
            d2 = depth2(consts(W, True)[5:] + [1, 255], ops=['+', '*', '/'], cmps=['==', '<'])
            for lo in range(0, len(d2), 800):
                out.append((i, 'd2q', W, lo, lo + 800))
                i += 1
            ch = chains(W)[::9]
            for lo in range(0, len(ch), 800):
                out.append((i, 'chq', W, lo, lo + 800))
                i += 1
    return out


def exprs_for(item):
    kind, W = item[1], item[2]
    if kind == 'd1':
        return depth1(consts(W))
    if kind == 'd2':
        return depth2(consts(W, True))
    if kind == 'd2q':
        return depth2(consts(W, True)[5:] + [1, 255], ops=['+', '*', '/'], cmps=['==', '<'])
    if kind == 'ch':
        return chains(W)
    if kind == 'chq':
        return chains(W)[::9]


def run_lines(src, W):
    lines, err = compile_case(src, W, 64)
    if err:
        return None, err
    r, err = run_impl(src, [], W, 64, lines=lines)
    if err:
        return None, err
    return r, None


def run_item(item, tier):
    st = Stats()
    W = item[2]
    if item[1] == 'cli':
        cli_twin(st, W)
        return st
    if item[1] == 'fx':
        from ..cases import run_program
        e = EFFECT_EXPRS[item[3]]
        run_program(st, effect_program([e]), [['0', '10'], ['1', '10']], [2, 4], f'partially constant expression {e}')
        st.sample({'partially_constant_expression': e})
        st.add('twins_equal', 0)
        return st
    es = exprs_for(item)[item[3]:item[4]]
    ok = []
    for t, e in es:
        kind, line = wrapped_eval(t, e, W)
        st.add('evaluations')
        if kind == 'fault':
            single_fault(st, t, e, W)
        else:
            ok.append((t, e, line))
    for lo in range(0, len(ok), BATCH):
        batch(st, ok[lo:lo + BATCH], W, lo // BATCH)
    if es:
        st.sample({'W': W, 'expression': es[0][1], 'variable_form': variable_form(*es[0]), 'count_in_item': len(es)})
    return st


def cli_twin(st, W):
    """The same twins through the real command-line driver: constant forms compiled by `python -m hidc -m<bits>`, run on the VM,
    must print what the reference computes for run-time evaluation."""
    import os
    import subprocess
    import sys
    import tempfile
    from .. import hid
    d1 = depth1(consts(W, True))
    ok = []
    for t, e in d1:
        kind, line = wrapped_eval(t, e, W)
        if kind == 'ok':
            ok.append((t, e, line))
    ok = ok[::5][:160]
    d = tempfile.mkdtemp(prefix='hv_c14_')
    try:
        for lo in range(0, len(ok), BATCH):
            part = ok[lo:lo + BATCH]
            csrc, _ = forms(part, lo // BATCH)
            path = os.path.join(d, f'b{lo}.hid')
            with open(path, 'w') as f:
                f.write(csrc)
            env = dict(os.environ)
            env['PYTHONPATH'] = hid.REPO
            p = subprocess.run([sys.executable, '-m', 'hidc', path, f'-m{8 * W}', '-s64', '-o', path + '.s'], env=env, stdout=subprocess.PIPE, stderr=subprocess.PIPE, timeout=120)
            st.add('evaluations', len(part))
            case = {'kind': 'cli', 'W': W, 'lo': lo}
            if p.returncode != 0:
                st.viol(f'W={W}: command-line compile of constant-form batch failed: {p.stderr.decode()[-200:]}', case)
                continue
            lines = open(path + '.s', 'rb').read().split(b'\n')
            try:
                r = svm.run(svm.assemble(lines, [], strict_header=True), 2_000_000)
            except svm.AsmError as e:
                st.viol(f'W={W}: the assembler rejects what `python -m hidc -m{8 * W}` wrote: {e}', case)
                continue
            st.vm(r)
            want = b''.join(l for _, _, l in part)
            if r.outcome != 'loop' or r.output != want:
                got = r.output.split(b'\n')
                w2 = want.split(b'\n')
                k = next((j for j in range(min(len(got), len(w2))) if got[j] != w2[j]), min(len(got), len(w2)))
                st.viol(f'W={W}: compiled with `python -m hidc -m{8 * W}`, {part[k][1] if k < len(part) else "?"} prints {got[k] if k < len(got) else None!r} '
                        f'but evaluates to {w2[k] if k < len(w2) else None!r} at run time', case)
            else:
                st.add('twins_equal', len(part))
                st.add('traces_validated_against_impl', len(part))
    finally:
        import shutil
        shutil.rmtree(d, ignore_errors=True)
    st.sample({'cli_twin_word_size': W, 'expressions': len(ok)})


def forms(batch_, k):
    """Constant-form and variable-form programs for a batch; the constant form rotates through 4 presentations."""
    const_stmts = []
    globs = []
    for j, (t, e, _) in enumerate(batch_):
        mode = (j + k) % 4
        if mode == 0:
            const_stmts.append(show(t, e))
        elif mode == 1:
            const_stmts.append(f'const {t} c{j} = {e}; ' + show(t, f'c{j}'))
        elif mode == 2:
            globs.append(f'const {t} gc{j} = {e};')
            const_stmts.append(show(t, f'gc{j}'))
        else:
            globs.append(f'{t} gv{j} = {e};')
            const_stmts.append(show(t, f'gv{j}'))
    csrc = '\n'.join(globs) + '\nempty @is_you() {\n' + '\n'.join(const_stmts) + '\n}\n'
    vsrc = 'empty @is_you() {\n' + '\n'.join('{ ' + variable_form(t, e) + ' }' for t, e, _ in batch_) + '\n}\n'
    return csrc, vsrc


def batch(st, batch_, W, k):
    csrc, vsrc = forms(batch_, k)
    rc, errc = run_lines(csrc, W)
    rv, errv = run_lines(vsrc, W)
    want = [l for _, _, l in batch_]
    if errv or rv.outcome != 'loop' or rv.output != b''.join(want):
        # the variable form itself disagrees with the reference: report (sequential-core defect or oracle bug)
        for t, e, l in batch_:
            single(st, t, e, W, l)
        return
    st.vm(rv)
    if errc or rc.outcome != 'loop' or rc.output != rv.output:
        for j, (t, e, l) in enumerate(batch_):
            single(st, t, e, W, l, mode=(j + k) % 4)
        return
    st.vm(rc)
    st.add('traces_validated_against_impl', len(batch_))
    st.add('twins_equal', len(batch_))
    st.count('dims', f'W{W}', len(batch_))
    # mixed forms: only the literals at even (odd) positions are variables
    for pat in (0, 1):
        msrc = 'empty @is_you() {\n' + '\n'.join('{ ' + variable_form(t, e, pat) + ' }' for t, e, _ in batch_) + '\n}\n'
        rm, errm = run_lines(msrc, W)
        if errm or rm.outcome != 'loop' or rm.output != rv.output:
            for t, e, l in batch_:
                mixed_single(st, t, e, W, l, pat)
        else:
            st.vm(rm)
            st.add('mixed_forms_equal', len(batch_))


def mixed_single(st, t, e, W, want, pat):
    msrc = 'empty @is_you() {\n{ ' + variable_form(t, e, pat) + ' }\n}\n'
    case = {'t': t, 'e': e, 'W': W, 'mode': 0, 'mixed': pat, 'want': want.decode('latin1')}
    rm, errm = run_lines(msrc, W)
    if errm:
        try:
            rtypes.elaborate(parse_program(msrc))
        except (rtypes.Reject, rtypes.Unspecified):
            st.add('mixed_forms_not_typable')
            return
        st.viol(f'W={W}: {e} with the literals at {"even" if pat == 0 else "odd"} positions replaced by variables is rejected ({errm[1][:80]}) although it is well-typed and '
                f'evaluates to {want!r}', case, key=f'mixrej|{e}|{W}|{pat}')
        return
    if rm.outcome != 'loop' or rm.output != want:
        st.viol(f'W={W}: {e} prints {rm.output!r} when the literals at {"even" if pat == 0 else "odd"} positions are replaced by variables holding the same values, but {want!r} '
                f'when all or none are', case, key=f'mix|{e}|{W}|{pat}')
        return
    st.add('mixed_forms_equal')


def single(st, t, e, W, want, mode=0):
    case = {'t': t, 'e': e, 'W': W, 'mode': mode}
    csrc, vsrc = forms([(t, e, want)], mode)
    rv, errv = run_lines(vsrc, W)
    rc, errc = run_lines(csrc, W)
    if errv or rv.outcome != 'loop' or rv.output != want:
        st.viol(f'W={W}: run-time evaluation of {e} prints {None if errv else rv.output!r}, the language semantics give {want!r} ({errv or ""})', case,
                key=f'rt|{e}|{W}')
        return
    if errc:
        st.viol(f'W={W}: constant form of {e} is rejected ({errc[1][:80]}) although evaluating it at run time does not fault (prints {want!r})', case,
                key=f'rej|{e}|{W}', model=defect_model(t, e, W))
        return
    if rc.outcome != 'loop' or rc.output != rv.output:
        st.viol(f'W={W}: {e} prints {rc.output!r} when folded at compile time (presentation {mode}) but {rv.output!r} when evaluated at run time', case,
                key=f'fold|{e}|{W}', model=defect_model(t, e, W), observed=rc.output.decode('latin1'))
        return
    st.add('traces_validated_against_impl')
    st.add('twins_equal')


def single_fault(st, t, e, W):
    """e divides by zero at run time."""
    case = {'t': t, 'e': e, 'W': W, 'mode': 0, 'fault': True}
    csrc, vsrc = forms([(t, e, None)], 0)
    rv, errv = run_lines(vsrc, W)
    if errv or 'division_by_zero' not in rv.flags:
        st.viol(f'W={W}: run-time evaluation of {e} should raise division_by_zero: {errv or rv.flags}', case, key=f'rtf|{e}|{W}')
        return
    lines, err = compile_case(csrc, W, 64)
    st.add('faulting_expressions')
    if err:
        if err[0] == 'reject':
            st.add('rejected_at_compile_time')
            return
        st.viol(f'W={W}: constant form of {e} crashed the compiler: {err}', case)
        return
    rc, errc = run_impl(csrc, [], W, 64, lines=lines)
    if errc or rc.trace != rv.trace:
        st.viol(f'W={W}: {e} divides by zero at run time but its constant form is accepted and prints {None if errc else rc.output!r} {None if errc else rc.flags}', case,
                key=f'fold0|{e}|{W}', model=defect_model(t, e, W), observed=None if errc else rc.output.decode('latin1'))
        return
    st.add('twins_equal')


# ---- defect model for the known finding "constants are folded in unbounded integers" ----------------------------

def defect_model(t, e, W):
    """What the compiler prints if it folds e with unbounded Python integers (truncating only at `is byte`) and the
    assembler then wraps the final immediate: returns the predicted output line, 'reject' if that evaluation divides by
    zero, or None if the model does not apply."""
    bits = 8 * W
    mask = (1 << bits) - 1

    def wrap(v):
        v &= mask
        return v - (1 << bits) if v >> (bits - 1) else v

    class Z(Exception):
        pass

    def ev(x):
        k = x[0]
        if k == 'int':
            return x[1]
        if k == 'chr':
            return x[1]
        if k == 'bool':
            return bool(x[1])
        if k == 'un':
            v = ev(x[2])
            return (not v) if x[1] == 'not' else (-v if x[1] == '-' else +v)
        if k == 'is':
            v = ev(x[1])
            if x[2] == 'byte':
                return int(v) & 0xFF
            if x[2] == 'bool':
                return bool(v)
            return int(v)
        if k == 'bin':
            op = x[1]
            a = ev(x[2])
            if op == 'and':
                return bool(a and ev(x[3]))
            if op == 'or':
                return bool(a or ev(x[3]))
            b = ev(x[3])
            if op in '/%' and b == 0:
                raise Z()
            return {'+': lambda: a + b, '-': lambda: a - b, '*': lambda: a * b, '/': lambda: a // b, '%': lambda: a % b,
                    '==': lambda: a == b, '!=': lambda: a != b, '<': lambda: a < b, '<=': lambda: a <= b,
                    '>': lambda: a > b, '>=': lambda: a >= b}[op]()
        raise ValueError(x)
    try:
        v = ev(parse_expr(e))
    except Z:
        return 'reject'
    if isinstance(v, bool):
        return 'true\n' if v else 'false\n'
    return f'{wrap(v)}\n'


def match_finding(f, v):
    if f.get('id') != 'unbounded-constant-folding':
        return False
    model = v.get('model')
    key = v.get('key', '')
    if key.startswith('rej|'):
        return model == 'reject'
    if key.startswith('fold|') or key.startswith('fold0|'):
        return model is not None and model != 'reject' and v.get('observed') == model
    return False


def coverage(total, tier):
    cov = std_coverage(total, {
        'depth1': 'every operator and cast on all pairs of the constants {0,1,2,3,7,10,127,128,255,256,257, 2^(n-1)-1, 2^(n-1), 2^n-1, 2^n, 2^n+1, '
                  "2^(n-1)+1, 'a', '\\xff', true, false}",
        'depth2': ('op(op(c,c),c) and op(c,op(c,c)) over 9 constants incl. all word-boundary ones, all arithmetic and comparison operators, casts and '
                   'derived conditions') if tier == 'thorough' else 'op(op(c,c),c) over 6 boundary constants and + * / == <',
        'chains': 'depth 3 left chains, balanced trees and cast/comparison mixes over 4 constants x 4 operators' + ('' if tier == 'thorough' else ' (every 9th)'),
        'effects': f'{len(EFFECT_EXPRS)} expressions that are partly constant and partly effectful or faulting (array-literal length/index/truthiness with call or '
                   'faulting elements, x*0, short-circuit with constants, ?? of equal constants), compared with the reference interpreter on inputs z in 0,1',
        'cli': 'every 5th depth-1 expression over the reduced constants compiled through the real `python -m hidc -m<bits>` driver and run on the VM (W 2,3,4)',
        'presentations': 'literal in place, const local, const global, non-const global initialiser (rotating); variable form: every literal in a non-const local; two mixed forms: only the literals at even / odd positions are variables',
        'word_sizes': '2,3,4',
    })
    for k in ('twins_equal', 'mixed_forms_equal', 'mixed_forms_not_typable', 'faulting_expressions', 'rejected_at_compile_time'):
        cov[k] = total.get(k, 0)
    return cov


def vacuity(total, tier):
    if total.get('viol'):
        return None
    if not total.get('twins_equal'):
        return 'no twin compared'
    return None


def replay(case):
    if case.get('kind') == 'conformance':
        from ..cases import replay_conformance
        return replay_conformance(case)
    if case.get('kind') == 'cli':
        st2 = Stats()
        cli_twin(st2, case['W'])
        return [v['msg'] for v in st2.get('viol', [])]
    st = Stats()
    t, e, W = case['t'], case['e'], case['W']
    if 'mixed' in case:
        mixed_single(st, t, e, W, case['want'].encode('latin1'), case['mixed'])
        return [v['msg'] for v in st.get('viol', [])]
    if case.get('fault'):
        single_fault(st, t, e, W)
    else:
        kind, line = wrapped_eval(t, e, W)
        if kind == 'fault':
            single_fault(st, t, e, W)
        else:
            single(st, t, e, W, line, case.get('mode', 0))
    return [v['msg'] for v in st.get('viol', [])]
