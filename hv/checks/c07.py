"""C07 -- the typechecker accepts exactly the well-typed programs.
A typed-atom alphabet is placed in every typed context (declaration, assignment, compound and
element assignment, argument, return, operator operands, casts, conditions, index, length,
dynamic array length, ?? operands) plus a list of scope/shape rules; the verdict of the
reference typing judgement hv.ref.types (accept / reject / unspecified -- the last is skipped
and counted) must coincide with parse().evaluate(); a rejection is any compiler diagnostic (its class is recorded, not judged).
Overload binding: every ordered set of <= 3 one-parameter overloads over 8 parameter types and
two-parameter sets over 4 types, called with every argument shape; each overload prints its
index, the compiled program runs on the VM and the output must match the reference rule."""
import itertools

from ..cases import Stats, check_conformance, compile_case
from .. import hid
from ..ref import types as rtypes
from ..ref.parser import parse_program, RefParseError
from ..ref.lexer import RefLexError

LEVEL = 'exploration'

GLOBALS = "int gi = 1; const int gci = 2; int[] gai = [1, 2]; const int[] gcai = [3, 4];\n"
FUNCS = """
int fi() { return 1; } byte fy() { return 'y'; } bool fb() { return true; } string fs() { return "s"; } empty fe() { }
empty pint(int p) { } empty pbyte(byte p) { } empty pbool(bool p) { } empty pstring(string p) { }
empty paint(int[] p) { } empty pcaint(const int[] p) { } empty pabyte(byte[] p) { } empty pcabyte(const byte[] p) { }
empty pabool(bool[] p) { } empty pcabool(const bool[] p) { } empty pastring(string[] p) { } empty pcastring(const string[] p) { }
"""
LOCALS = """
int vi = 1; const int ci = 2; byte vy = 'a'; const byte cy = 'b'; bool vb = true; const bool cb = false; string vs = "s"; const string cs = "c";
int[] ai = [1, 2]; const int[] cai = [3]; byte[] ay = ['a']; const byte[] cay = ['b']; bool[] ab = [true]; const bool[] cab = [false];
string[] as = ["x"]; const string[] cas = ["y"];
"""

ATOMS = [
    '5', '300', '-1', "'c'", 'true', '"str"', '[]', '[1, 2]', "['a', 'b']", "[1, 'a']", '[vi, 2]', '[vy]', '[vy, 1]', '[true]', '["a"]', '[vi, vb]', '[[1]]', '[vy, vi, 1]', '[vy, vi]', "[1, vi, 'a']", '[vy, 1, vi]', "['a', 300]",
    'vi', 'ci', 'vy', 'cy', 'vb', 'cb', 'vs', 'cs', 'ai', 'cai', 'ay', 'cay', 'ab', 'cab', 'as', 'cas', 'gi', 'gci', 'gai', 'gcai',
    '1 + 2', 'vi + 1', 'vy + 1', 'vy + vy', "'a' * 2", '-vy', '+5', 'ci + 1', '1 + ci',
    'vi is byte', 'vy is int', 'vi is bool', 'vs is bool', 'ai is bool', 'vb is int', 'vb is byte', 'vs is byte[]', 'vs is int', 'vi is string',
    '[1, 2] is byte[]', '[vi] is byte[]', '5 is int', "'c' is int", 'vy is bool', 'vb is bool', 'ai is int[]', 'vs is string',
    'fi()', 'fy()', 'fb()', 'fs()', 'fe()',
    'ai[0]', 'cay[0]', 'vs[0]', 'as[0]', 'vi[0]', 'ab[0]', '"lit"[1]', '[1, 2][0]',
    'ai.length', 'vs.length', 'vi.length', '[1].length', '"lit".length', 'cs.length', 'cs.length + 1', '[1, 2].length + 1',
    # constant arithmetic that wraps at the 16-bit word: still not a literal
    'ci * 20000', 'gci * 30000 + 1', '(ci + 32767) * 2',
    'vi < 2', 'vb == cb', 'vb == vi', 'vs == vs', 'vy == 97', 'not vi', 'vb and vs', 'vi or ai',
]
TYPES = ['int', 'byte', 'bool', 'string', 'int[]', 'const int[]', 'byte[]', 'const byte[]', 'bool[]', 'const bool[]', 'string[]', 'const string[]']
VARS = ['vi', 'ci', 'vy', 'cy', 'vb', 'cb', 'vs', 'cs', 'ai', 'cai', 'ay', 'cay', 'ab', 'cab', 'as', 'cas', 'gi', 'gci', 'gai']
ELEMS = ['ai[0]', 'cai[0]', 'ay[0]', 'cay[0]', 'ab[0]', 'cab[0]', 'as[0]', 'cas[0]', 'vs[0]', 'gai[1]', 'gcai[1]', 'cs[0]']
PFUNCS = ['pint', 'pbyte', 'pbool', 'pstring', 'paint', 'pcaint', 'pabyte', 'pcabyte', 'pabool', 'pcabool', 'pastring', 'pcastring']
BINOPS = ['+', '-', '*', '/', '%', '==', '!=', '<', '<=', '>', '>=', 'and', 'or', '??']
INCOPS = ['+=', '-=', '*=', '/=', '%=']


PARAMS = ('int qi, const int qci, byte qy, bool qb, string qs, const string qcs, int[] qai, const int[] qcai, byte[] qay, const byte[] qcay, bool[] qab, const bool[] qcab, '
          'string[] qas, const string[] qcas')
PVARS = ['qi', 'qci', 'qy', 'qb', 'qs', 'qcs', 'qai', 'qcai', 'qay', 'qcay', 'qab', 'qcab', 'qas', 'qcas']


def wrapp(stmt):
    return GLOBALS + FUNCS + f'empty h({PARAMS}) {{ {LOCALS} {stmt} }}\nempty @t() {{ }}\n'


def wrap(stmt, ret='empty', flavour='@'):
    name = f'{flavour}t' if flavour else 't'
    return GLOBALS + FUNCS + f'{ret} {name}() {{ {LOCALS} {stmt} }}\n'


def contexts(tier='thorough'):
    """-> list of (group, list of (label, source))"""
    groups = []
    g = []
    for t in TYPES:
        for a in ATOMS:
            g.append((f'decl {t} = {a}', wrap(f'{t} d = {a};')))
    for t in ('int', 'byte', 'bool', 'string'):
        for a in ATOMS:
            g.append((f'decl const {t} = {a}', wrap(f'const {t} d = {a};')))
    groups.append(('declaration', g))
    g = []
    for v in VARS:
        for a in ATOMS:
            g.append((f'{v} = {a}', wrap(f'{v} = {a};')))
    groups.append(('assignment', g))
    g = []
    for v in ELEMS:
        for a in ATOMS:
            g.append((f'{v} = {a}', wrap(f'{v} = {a};')))
    groups.append(('element assignment', g))
    g = []
    for v in ['vi', 'ci', 'vy', 'vb', 'vs', 'ai', 'gi', 'gci', 'ai[0]', 'cai[0]', 'ay[0]', 'ab[0]', 'as[0]', 'vs[0]']:
        for op in INCOPS:
            for a in ATOMS:
                g.append((f'{v} {op} {a}', wrap(f'{v} {op} {a};')))
    groups.append(('compound assignment', g))
    g = []
    for f in PFUNCS:
        for a in ATOMS:
            g.append((f'{f}({a})', wrap(f'{f}({a});')))
        g.append((f'{f}()', wrap(f'{f}();')))
        g.append((f'{f}(vi, vi)', wrap(f'{f}(vi, vi);')))
    for a in ATOMS:
        g.append((f'write({a})', wrap(f'write({a});')))
        g.append((f'writeln({a})', wrap(f'writeln({a});')))
        g.append((f'sleep({a})', wrap(f'sleep({a});')))
    groups.append(('argument', g))
    g = []
    for rt in ('int', 'byte', 'bool', 'string', 'empty'):
        for a in ATOMS:
            g.append((f'{rt} return {a}', wrap(f'return {a};', rt)))
        g.append((f'{rt} return;', wrap('return;', rt)))
        g.append((f'{rt} no return', wrap('vi = 2;', rt)))
        g.append((f'{rt} return in one branch', wrap('if (vb) { return ' + {'int': '1', 'byte': "'a'", 'bool': 'true', 'string': '"s"', 'empty': ''}[rt] + '; }', rt)))
    groups.append(('return', g))
    grid = ATOMS if tier == 'thorough' else ATOMS[::3] + ['vy', 'vb', 'vs', 'ai', "'c'", 'fe()']
    for op in BINOPS:
        g = []
        for a in grid:
            for b in grid:
                g.append((f'{a} {op} {b}', wrap(f'writeln(({a}) {op} ({b}));' if op != '??' else f'vi = (({a}) ?? ({b})) is int;')))
        groups.append((f'operands of {op}', g))
    g = []
    for a in ATOMS:
        for u in ('-', '+', 'not '):
            g.append((f'{u}{a}', wrap(f'writeln({u}({a}));')))
        g.append((f'if ({a})', wrap(f'if ({a}) {{ }}')))
        g.append((f'while ({a})', wrap(f'while ({a}) {{ break; }}')))
        g.append((f'ai[{a}]', wrap(f'writeln(ai[{a}]);')))
        g.append((f'int n[{a}]', wrap(f'int n[{a}];')))
        g.append((f'({a}).length', wrap(f'writeln(({a}).length);')))
        g.append((f'({a})[0]', wrap(f'vb = (({a})[0]) is bool;')))
        g.append((f'!truth_is_defeat({a})', wrap(f'try {{ !truth_is_defeat({a}); }} undo {{ }}')))
        for t in ('int', 'byte', 'bool', 'string', 'int[]', 'byte[]', 'bool[]', 'string[]'):
            g.append((f'({a}) is {t}', wrap(f'vb = (({a}) is {t}) is bool;')))
        g.append((f'expression statement {a}', wrap(f'{a};')))
    groups.append(('unary / condition / index / cast target', g))
    # the same assignment rules when the target is a PARAMETER (of every type), an element of a parameter, a loop variable or a global
    g = []
    patoms = (ATOMS if tier == 'thorough' else ATOMS[::2]) + PVARS
    for v in PVARS + ['qai[0]', 'qcai[0]', 'qay[0]', 'qcay[0]', 'qs[0]', 'qas[0]', 'qcas[0]', 'qab[0]', 'qcab[0]']:
        for a in patoms:
            g.append((f'parameter {v} = {a}', wrapp(f'{v} = {a};')))
    for v in ['qi', 'qci', 'qy', 'qs', 'qai', 'qcai', 'qai[0]', 'qcai[0]', 'qay[0]']:
        for op in INCOPS[:2]:
            for a in patoms[::3]:
                g.append((f'parameter {v} {op} {a}', wrapp(f'{v} {op} {a};')))
    for a in patoms:
        g.append((f'loop variable = {a}', wrapp(f'for (int k = 0; k < 2; k += 1) {{ k = {a}; }}')))
        g.append((f'const loop variable = {a}', wrapp(f'for (const int k = 0; k < 2;) {{ k = {a}; }}')))
        g.append((f'array loop variable = {a}', wrapp(f'for (int[] k = [1]; qb;) {{ k = {a}; }}')))
    groups.append(('parameter / loop-variable assignment', g))
    return groups


SCOPE_PROGRAMS = [
    'empty @t() { writeln(nope); }',
    'empty @t() { nope = 1; }',
    'empty @t() { int a = 1; int a = 2; }',
    'empty @t() { int a = 1; { int a = 2; } }',
    'empty @t() { { int a = 1; } int a = 2; writeln(a); }',
    'empty @t() { { int a = 1; } { int a = 2; } }',
    'int g = 1; empty @t() { int g = 2; writeln(g); }',
    'int g = 1; empty @t() { int g = 2; { int g = 3; } }',
    'int g = 1; int g = 2; empty @t() { }',
    'int g = 1; empty @t(int g) { writeln(g); }',
    'empty @t(int p) { int p = 1; }',
    'empty @t(int p, int p) { }',
    'empty @t(int p) { { int p = 2; } }',
    'empty @t() { for (int i = 0; i < 2; i += 1) { } for (int i = 0; i < 2; i += 1) { } }',
    'empty @t() { for (int i = 0; i < 2; i += 1) { int i = 5; } }',
    'empty @t() { int i = 0; for (int i = 0; i < 2; i += 1) { } }',
    'empty @t() { for (int i = 0; i < 2; i += 1) { } writeln(i); }',
    'empty f() { } empty f() { } empty @t() { }',
    'empty f(int a) { } empty f(int b) { } empty @t() { }',
    'empty f(int a) { } empty f(byte a) { } empty @t() { f(1); }',
    'empty f(int a) { } int f(int a) { return a; } empty @t() { }',
    'empty f(int[] a) { } empty f(const int[] a) { } empty @t() { }',
    'empty write(int a) { } empty @t() { }',
    'empty write(int[] a) { } empty @t() { write([1]); }',
    'empty @t() { @t(); }',
    'empty @t() { undefined_function(); }',
    'empty @t() { int[] a = [[1], [2]]; }',
    'empty @t() { int[] a = [1]; int[] b = [a]; }',
    'empty @t() { int x = writeln(); }',
    'empty f() { } empty @t() { int x = f(); }',
    'empty f() { } empty @t() { writeln(f()); }',
    'empty f() { } empty @t() { int[] a = [f()]; }',
    'empty @t() { int[] a = [1]; a = [2]; }',
    'empty @t() { const int[] a = [1]; a[0] = 2; }',
    'empty @t() { int[] a = [1]; const int[] b = [2]; a = b; }',
    'empty @t() { string s = "a"; s = "b"; writeln(s); }',
    'empty @t() { string s = "ab"; s[0] = 1; }',
    "empty @t() { string s = \"ab\"; s[0] = 'c'; }",
    'empty @t() { const string s = "a"; s = "b"; }',
    'empty @t(const int p) { p = 2; }',
    'empty @t(int p) { p = 2; }',
    'empty @t(int[] p) { p[0] = 2; }',
    'empty @t(const int[] p) { p[0] = 2; }',
    'empty g(int[] p) { } empty @t(const int[] p) { g(p); }',
    'empty g(const int[] p) { } empty @t(int[] p) { g(p); }',
    'int @t() { }',
    'int @t() { if (true) { return 1; } }',
    'int @t() { while (true) { } }',
    'int @t() { while (true) { break; } }',
    'int @t() { for (;;) { return 1; } }',
    'int @t(int x) { if (x > 0) { return 1; } else { return 2; } }',
    'int @t(int x) { if (x > 0) { return 1; } else { } }',
    'int @t() { all_is_win(); }',
    'int @t() { try { return 1; } undo { return 2; } }',
    'int @t() { try { !is_defeat(); } undo { return 2; } }',
    'int @t() { try { !is_defeat(); } stop { } }',
    'empty @t() { return 1; }',
    'empty @t() { break; }',
    'empty @t() { int n[2]; n = [1, 2]; }',
    'empty @t() { int n[2]; int[] m = n; m[0] = 1; }',
    'empty @t() { int n[2]; const int[] m = [1]; n[0] = m[0]; }',
    'empty @t() { byte b = 1; b += 1; b = b + 1; }',
    'empty @t() { byte b = 1; int i = 2; b += i; }',
    'empty @t() { byte b = 1; int i = 2; b = i; }',
    'empty @t() { byte b = 1; int i = 2; b = i is byte; }',
    'empty @t() { bool b = 1; }',
    'empty @t() { int i = true; }',
    'empty @t() { int i = 1; bool b = i; }',
    'empty @t() { int i = 1; if (i) { } }',
    'empty @t() { string s = "x"; if (s) { } while (s) { break; } }',
    'empty @t() { int[] a = []; int b[0]; writeln(a.length + b.length); }',
    'empty @t() { int i = [1, 2]; }',
    'empty @t() { int i = "s"; }',
    'empty @t() { string s = 1; }',
    "empty @t() { string s = 'c'; }",
    'empty @t() { const byte[] b = "str"; write(b); }',
    'empty @t() { byte[] b = "str"; }',
    'empty @t() { string s = ["a", "b"][0]; writeln(s); }',
    # loops whose body always exits still may run zero times
    'int @t(int x) { while (x > 0) { return 1; } }',
    'int @t(int x) { for (int i = 0; i < x; i += 1) { return i; } }',
    'int @t(int x) { while (x > 0) { return 1; } return 0; }',
    'int @t(int x) { while (x > 0) { if (x == 1) { return 1; } else { return 2; } } }',
    'int @t(int x) { for (;;) { if (x > 0) { break; } if (x < 0) { x += 1; } } }',
    'int @t(int x) { for (;;) { if (x > 0) { break; } if (x < 0) { x += 1; } } return x; }',
    'int @t(int x) { while (true) { if (x > 0) { break; } try { x += 1; } undo { } } }',
    # user-defined overloads of the names of the terminal builtins are ordinary functions
    'empty all_is_win(int code) { write(code); } int @t() { all_is_win(3); }',
    'empty all_is_broken(string why) { write(why); } int @t() { all_is_broken("x"); }',
    'empty all_is_broken(string why) { write(why); } int @t() { all_is_broken("x"); return 1; }',
    'empty all_is_win(int code) { write(code); } int @t() { all_is_win(); }',
    'empty !is_defeat(int code) { write(code); } int !t() { !is_defeat(3); }',
    'empty !is_defeat(int code) { write(code); } int !t() { !is_defeat(); }',
    # a try whose body can only be defeated inside an expression still may end in its handler
    'int !v(int x) { !truth_is_defeat(x == 1); return x; } int @t(int x) { try { return !v(x); } undo { } }',
    'int !v(int x) { !truth_is_defeat(x == 1); return x; } int @t(int x) { try { return !v(x); } stop { write(x); } }',
    'int !v(int x) { !truth_is_defeat(x == 1); return x; } int @t(int x) { try { return !v(x); } undo { return 2; } }',
    'int !v(int x) { !truth_is_defeat(x == 1); return x; } int @t(int x) { try { int y = !v(x); return y; } stop { } }',
]


def ref_verdict(src):
    try:
        prog = parse_program(src)
    except (RefParseError, RefLexError) as e:
        return 'syntax', str(e), None
    try:
        rtypes.elaborate(prog)
        return 'accept', None, prog
    except rtypes.Reject as e:
        return ('reject' if e.kind == 'type' else 'reject_context'), str(e), prog
    except rtypes.Unspecified as e:
        return 'unspecified', str(e), prog


def impl_verdict(src):
    try:
        hid.typecheck(src)
        return 'accept', None
    except hid.TypeCheckError as e:
        return 'reject', str(e)
    except hid.CompilerError as e:
        return type(e).__name__, str(e)
    except Exception as e:
        return 'crash', f'{type(e).__name__}: {e}'


def compare(st, label, src):
    st.add('evaluations')
    rv, rmsg, prog = ref_verdict(src)
    if rv == 'syntax':
        raise AssertionError(f'reference parser rejects generated text {label}: {rmsg}\n{src}')
    iv, imsg = impl_verdict(src)
    case = {'label': label, 'src': src}
    if iv == 'crash':
        st.viol(f'{label}: typechecker crashed: {imsg} (reference says {rv})', case)
        return None
    if rv == 'unspecified':
        st.add('unspecified')
        return None
    if rv == 'accept' and iv != 'accept':
        st.viol(f'{label}: well-typed by the documented rules but rejected with {iv}: {imsg}', case)
        return None
    if rv in ('reject', 'reject_context') and iv == 'accept':
        st.viol(f'{label}: breaks a documented ' + ('typing' if rv == 'reject' else 'placement') + f' rule ({rmsg}) but is accepted', case)
        return None
    if rv != 'accept':
        # any compiler diagnostic is a rejection; the class that reports it is recorded, not judged
        st.count('rejection_classes', 'TypeCheckError' if iv == 'reject' else iv)
        st.add('rejected')
        return 'reject'
    st.add('accepted')
    return rv


# ---- overload binding -------------------------------------------------------
OV_TYPES = ['int', 'byte', 'bool', 'string', 'int[]', 'const int[]', 'const byte[]', 'byte[]']
OV_ARGS = ['5', "'c'", 'true', '"s"', 'vi', 'vy', 'vb', 'vs', 'vy + 1', '300 + 1', 'ai', 'cai', 'ay', 'cay', '[1, 2]', "['a']", "[1, 'a']",
           '[vi]', '[vy]', '[]', 'vs is byte[]', 'vi is byte', 'vy is int']
OV_LOCALS = "int vi = 1; byte vy = 'a'; bool vb = true; string vs = \"s\"; int[] ai = [1]; const int[] cai = [2]; byte[] ay = ['a']; const byte[] cay = ['b'];"


def ov_sets(tier):
    sets = []
    for n in (1, 2, 3):
        combos = list(itertools.permutations(OV_TYPES, n))
        if n == 3 and tier == 'quick':
            combos = combos[::3]
        sets.extend(combos)
    return sets


def ov_program(combo, args, pos=None):
    """The calling function is declared at position `pos` among the overloads (default: after all of them):
    binding must not depend on where the caller stands."""
    fs = [f'empty o({t} p) {{ write({k}); }}\n' for k, t in enumerate(combo)]
    calls = ' '.join(f"o({a}); write(',');" for a in args)
    main = f'empty @is_you() {{ {OV_LOCALS} {calls} }}\n'
    if pos is None:
        pos = len(fs)
    return ''.join(fs[:pos]) + main + ''.join(fs[pos:])


OV2_TYPES = ['int', 'byte', 'const int[]', 'int[]']
OV2_ARGS = ['5', "'c'", 'vi', 'vy', 'ai', 'cai', '[1]', 'vy + 1']


OV3_SIGS = [('int',), ('byte',), ('int', 'int'), ('byte', 'int'), ('int', 'byte'), ('const int[]',), ('const int[]', 'int'), ('string',), ('string', 'string'), ()]
OV3_CALLS = ['o()', 'o(vi)', 'o(vy)', 'o(5)', 'o(vi, vi)', 'o(vy, vy)', 'o(vy, 5)', 'o(5, vy)', 'o(ai)', 'o(ai, vy)', 'o([1], 2)', 'o(vs)', 'o(vs, "t")', 'o(vs is byte[])',
             'o(vi, vi, vi)', "o('c')", 'o(cai, 3)']


def ov3_sets():
    return list(itertools.permutations(OV3_SIGS, 2))


def ov3_program(combo, calls, pos=None):
    fs = []
    for k, sig in enumerate(combo):
        params = ', '.join(f'{t} p{j}' for j, t in enumerate(sig))
        fs.append(f'empty o({params}) {{ write({k}); }}\n')
    main = f"empty @is_you() {{ {OV_LOCALS} " + ' '.join(f"{c}; write(',');" for c in calls) + ' }\n'
    if pos is None:
        pos = len(fs)
    return ''.join(fs[:pos]) + main + ''.join(fs[pos:])


def items(tier):
    out = []
    i = 0
    for gi, (name, cases) in enumerate(contexts(tier)):
        step = 400
        for lo in range(0, len(cases), step):
            out.append((i, 'ctx', gi, lo, lo + step))
            i += 1
    out.append((i, 'scope'))
    i += 1
    sets = ov_sets(tier)
    step = 4
    for lo in range(0, len(sets), step):
        out.append((i, 'ov', lo, lo + step))
        i += 1
    s3 = ov3_sets()
    for lo in range(0, len(s3), 6):
        out.append((i, 'ov3', lo, lo + 6))
        i += 1
    pairs = list(itertools.product(OV2_TYPES, repeat=2))
    sets2 = [c for c in itertools.permutations(pairs, 2)]
    if tier == 'quick':
        sets2 = sets2[::6]
    for lo in range(0, len(sets2), 5):
        out.append((i, 'ov2', lo, lo + 5))
        i += 1
    return out


_CTX = None


def run_item(item, tier):
    global _CTX
    st = Stats()
    kind = item[1]
    if kind == 'ctx':
        if _CTX is None:
            _CTX = contexts(tier)
        name, cases = _CTX[item[2]]
        for label, src in cases[item[3]:item[4]]:
            v = compare(st, f'[{name}] {label}', src)
            if v:
                st.count('by_context', f'{name}/{v}')
        label, src = cases[item[3]]
        st.sample({'context': name, 'case': label})
    elif kind == 'scope':
        for k, src in enumerate(SCOPE_PROGRAMS):
            v = compare(st, f'[scope/shape rule {k}]', src)
            if v:
                st.count('by_context', f'rules/{v}')
        st.sample({'rule_program': SCOPE_PROGRAMS[3]})
    elif kind == 'ov':
        sets = ov_sets(tier)[item[2]:item[3]]
        for combo in sets:
            ok_args = []
            for a in OV_ARGS:
                v = compare(st, f'[overload set {list(combo)}] o({a})', ov_program(combo, [a]))
                if v == 'accept':
                    ok_args.append(a)
                if v:
                    st.count('by_context', f'overload/{v}')
            if ok_args:
                for pos in range(len(combo) + 1):
                    src = ov_program(combo, ok_args, pos)
                    if pos < len(combo):
                        # the verdict must not depend on where the caller is declared
                        v = compare(st, f'[overload set {list(combo)}, caller declared at position {pos}] accepted calls', src)
                        if v != 'accept':
                            continue
                    prog = parse_program(src)
                    check_conformance(st, src, prog, [], 2, mon=False, tag=f'overload binding {list(combo)} caller at {pos}')
                    st.add('bindings_executed', len(ok_args))
        st.sample({'overload_set': list(sets[0]), 'arguments': OV_ARGS})
    elif kind == 'ov3':
        for combo in ov3_sets()[item[2]:item[3]]:
            ok = []
            for c in OV3_CALLS:
                v = compare(st, f'[overloads of different arity {list(combo)}] {c}', ov3_program(combo, [c]))
                if v == 'accept':
                    ok.append(c)
                if v:
                    st.count('by_context', f'overload/{v}')
            if ok:
                for pos in range(len(combo) + 1):
                    src = ov3_program(combo, ok, pos)
                    check_conformance(st, src, parse_program(src), [], 2, mon=False, tag=f'overloads of different arity {list(combo)} caller at {pos}')
                    st.add('bindings_executed', len(ok))
        st.sample({'overloads_of_different_arity': [list(x) for x in ov3_sets()[item[2]]], 'calls': OV3_CALLS})
    elif kind == 'ov2':
        pairs = list(itertools.product(OV2_TYPES, repeat=2))
        sets2 = [c for c in itertools.permutations(pairs, 2)]
        if tier == 'quick':
            sets2 = sets2[::6]
        for combo in sets2[item[2]:item[3]]:
            fs = ''.join(f'empty o({a} p, {b} q) {{ write({k}); }}\n' for k, (a, b) in enumerate(combo))
            ok = []
            for x in OV2_ARGS:
                for y in OV2_ARGS:
                    src = fs + f'empty @is_you() {{ {OV_LOCALS} o({x}, {y}); }}\n'
                    v = compare(st, f'[2-parameter overloads {list(combo)}] o({x}, {y})', src)
                    if v == 'accept':
                        ok.append((x, y))
            if ok:
                calls = ' '.join(f"o({x}, {y}); write(',');" for x, y in ok)
                fl = [f'empty o({a} p, {b} q) {{ write({k}); }}\n' for k, (a, b) in enumerate(combo)]
                main = f'empty @is_you() {{ {OV_LOCALS} {calls} }}\n'
                for pos in range(len(fl) + 1):
                    src = ''.join(fl[:pos]) + main + ''.join(fl[pos:])
                    check_conformance(st, src, parse_program(src), [], 2, mon=False, tag=f'2-parameter overload binding {list(combo)} caller at {pos}')
                    st.add('bindings_executed', len(ok))
    return st


def coverage(total, tier):
    return {
        'evaluations': total.get('evaluations', 0),
        'distinct_nontrivial': total.get('rejected', 0),
        'rule': 'each case is a distinct (context, atom[, atom]) program; non-trivial = the reference judgement REJECTS it (hidc must reject '
                'it with a compiler diagnostic); accepted cases must be accepted; cases the documentation leaves open are skipped and counted',
        'accepted': total.get('accepted', 0), 'rejected': total.get('rejected', 0), 'unspecified_skipped': total.get('unspecified', 0),
        'by_context': total.get('by_context', {}),
        'overload_bindings_executed_on_vm': total.get('bindings_executed', 0),
        'traces_validated_against_impl': total.get('traces_validated_against_impl', 0),
        'exhaustive': True,
        'bounds': {
            'atoms': len(ATOMS), 'declared_types': TYPES,
            'contexts': [name for name, _ in contexts()] + ['scope/shape rules (%d programs)' % len(SCOPE_PROGRAMS)],
            'binary_operator_grid': (f'{len(ATOMS)} x {len(ATOMS)}' if tier == 'thorough' else '34 x 34 (every 3rd atom + 6)') + f' atoms x {len(BINOPS)} operators',
            'overloads': f'all ordered sets of <=3 one-parameter overloads ' + ('' if tier == 'thorough' else '(every 3rd triple) ') + f'over {OV_TYPES} x {len(OV_ARGS)} argument shapes, the caller declared at every position among the overloads; '
                         f'all ordered pairs of {len(OV3_SIGS)} signatures of arity 0..2 x {len(OV3_CALLS)} calls; ordered pairs of two-parameter overloads over {OV2_TYPES} ' + ('(all)' if tier == 'thorough' else '(every 6th)'),
        },
    }


def vacuity(total, tier):
    if total.get('viol'):
        return None
    if not total.get('rejected') or not total.get('accepted'):
        return 'accept and reject must both occur'
    if not total.get('bindings_executed'):
        return 'no overload binding executed'
    return None


def replay(case):
    if case.get('kind') == 'conformance':
        from ..cases import replay_conformance
        return replay_conformance(case)
    st = Stats()
    compare(st, case['label'], case['src'])
    return [v['msg'] for v in st.get('viol', [])]
