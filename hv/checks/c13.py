"""C13 -- constant data reaches the output byte for byte.
String and character literals with every byte value (singly, in every ordered pair with a set of
special first bytes -- thorough: all 65536 pairs --, at first/middle/last position, lengths
0..64) are written, measured, indexed, truth-tested and viewed as const byte[]; constant arrays
of every element type, length 0..40, storage class and bool pattern are dumped.  The strict
assembler must accept the output and the committed trace must equal the reference trace."""
from ..cases import Stats, run_program, replay_conformance, std_coverage

LEVEL = 'model_checking'


SLIDE_TOKENS = [[0x5c, 0x78], [0x5c, 0x5c], [0x5c, 0x22], [0x22], [0x5c, 0x6e], [0x20, 0x20], [0x5c, 0x78, 0x34, 0x31], [0x0a], [0x27], [0x3b], [0x23], [0x09], [0x5c], [0x00],
                [0x5c, 0x5c, 0x78], [0x5c, 0x30], [0xff, 0x5c], [0x2c, 0x20], [0x25, 0x73], [0x7b, 0x7d]]
SLIDE_CHARS = [0x20, 0x2c, 0x27, 0x22, 0x3b, 0x23, 0x5c, 0x09, 0x2d, 0x0a, 0x00, 0x7f]


def esc(b):
    return '\\x%02x' % b


def single_program(bs):
    L = ['empty show(const byte[] v) { write(v); write(v.length); }', 'empty @is_you() {']
    for b in bs:
        s = esc(b)
        L.append(f'write("{s}"); write(\'{s}\'); write("a{s}b"); write("{s}"[0]); write("{s}".length); byte c{b} = \'{s}\'; write(c{b}); '
                 f'const byte[] v{b} = "x{s}" is byte[]; write(v{b}); write(v{b}[1]); show("{s}{s}"); write("{s}" is bool); '
                 f'byte[] m{b} = [\'{s}\', \'q\']; write(m{b}); string t{b} = "{s}!"; write(t{b}); write(t{b}[1]); writeln();')
    L.append('}')
    return '\n'.join(L)


def raw_program(bs):
    """Literal (unescaped) characters where the language allows them."""
    L = ['empty @is_you() {']
    for b in bs:
        ch = chr(b)
        L.append(f'write("{ch}{ch}"); write("{ch}".length); write(\'{ch}\'); writeln();')
    L.append('}')
    return '\n'.join(L)


def pair_program(a):
    L = ['empty @is_you() {']
    for b in range(256):
        L.append(f'write("{esc(a)}{esc(b)}"); write("{esc(b)}{esc(a)}{esc(b)}"[1]);')
    L.append('writeln(); }')
    return '\n'.join(L)


SPECIALS = [0x5c, 0x22, 0x27, 0x0a, 0x0d, 0x00, 0xff, 0x41, 0x3b, 0x20, 0x7f, 0x80, 0x09, 0x78, 0x30, 0x7b]


def triple_program(a, b):
    L = ['empty @is_you() {']
    for c in range(256):
        L.append(f'write("{esc(a)}{esc(b)}{esc(c)}"); write("{esc(c)}{esc(a)}{esc(b)}".length);')
    L.append('writeln();')
    L.append('const byte[] t = [' + ', '.join("'" + esc(x) + "'" for c in range(0, 256, 5) for x in (a, b, c)) + ']; write(t); writeln(t.length); }')
    return '\n'.join(L)


def viaregs_program(bs):
    """The string reaches the byte-array view / write through a variable, a parameter, a call result and an array element."""
    body = ''.join(esc(b) for b in bs)
    return (f'string gs = "{body}g";\nstring pick(int k) {{ if (k == 0) {{ return "{body}r"; }} return gs; }}\n'
            'empty show(const byte[] v) { write(v); write(v.length); }\nempty via(string p) { const byte[] v = p is byte[]; write(v); write(v[0]); show(p is byte[]); show(p); }\n'
            f'empty @is_you() {{ string ls = "{body}l"; const string[] tab = ["{body}0", "{body}1"]; string[] mt = ["m{body}", "n"];\n'
            'via(ls); via(gs); via(pick(0)); via(pick(1)); via(tab[1]); via(mt[0]); show(ls is byte[]); show(tab[0] is byte[]); show(pick(0) is byte[]);\n'
            'const byte[] a = ls is byte[]; const byte[] b = pick(0) is byte[]; write(a); write(b); write(a[a.length - 1]); write(b[b.length - 1]); writeln(); }\n')


def widths_program(vals, order):
    """Constant arrays with equal values but different element types in one program."""
    lit = '[' + ', '.join(str(v) for v in vals) + ']'
    chars = '[' + ', '.join("'\\x%02x'" % (v % 256) for v in vals) + ']'
    decls = {'b': f'const byte[] small = {lit};', 'i': f'const int[] wide = {lit};', 'c': f'const int[] ci = {chars};', 'y': f'const byte[] cy = {chars};'}
    uses = {'b': 'for (int k = 0; k < small.length; k += 1) { write(small[k] is int); write(\',\'); }', 'i': 'for (int k = 0; k < wide.length; k += 1) { write(wide[k]); write(\',\'); }',
            'c': 'for (int k = 0; k < ci.length; k += 1) { write(ci[k]); write(\',\'); }', 'y': 'for (int k = 0; k < cy.length; k += 1) { write(cy[k] is int); write(\',\'); }'}
    return ('empty @is_you() { ' + ' '.join(decls[o] for o in order) + ' ' + ' '.join(uses[o] + ' writeln();' for o in order)
            + ' bool[] fl = [true, false, true]; const bool[] cf = [true, false, true]; write(fl[0]); write(cf[2]); writeln(); }\n')


def file_case(st, Ws):
    """Raw (unescaped) characters inside literals of a source FILE compiled by the command-line driver."""
    import os
    import subprocess
    import sys
    import tempfile
    from .. import hid, svm
    raws = [chr(c) for c in (1, 8, 9, 11, 12, 27, 31, 32, 127, 0xa0, 0xe9, 0x2028)] + ['\t\t', 'a\tb', '\t x']
    body = ''.join(f'write("{r}|"); write("{r}".length); write(\'|\');' for r in raws)
    chars = ''.join(f"write('{r}');" for r in raws if len(r.encode('utf-8')) == 1)
    text = 'empty @is_you() {\n\t' + body + '\n\t' + chars + '\n}\n'
    want = b''.join(r.encode('utf-8') + b'|' + str(len(r.encode('utf-8'))).encode() + b'|' for r in raws) + b''.join(r.encode() for r in raws if len(r.encode('utf-8')) == 1)
    d = tempfile.mkdtemp(prefix='hv_c13_')
    try:
        path = os.path.join(d, 'raw.hid')
        with open(path, 'wb') as f:
            f.write(text.encode('utf-8'))
        for W in Ws:
            st.add('evaluations')
            env = dict(os.environ)
            env['PYTHONPATH'] = hid.REPO
            p = subprocess.run([sys.executable, '-m', 'hidc', path, f'-m{8 * W}', '-o', path + '.s'], env=env, stdout=subprocess.PIPE, stderr=subprocess.PIPE, timeout=120)
            case = {'kind': 'file'}
            if p.returncode != 0:
                st.viol(f'source file with raw control characters in literals is rejected: {p.stderr.decode()[-200:]}', case)
                continue
            try:
                P = svm.assemble(open(path + '.s', 'rb').read().split(b'\n'), [], strict_header=True)
            except svm.AsmError as e:
                st.viol(f'source file with raw characters in literals (W={W}): the assembler rejects the emitted assembly: {e}', case)
                continue
            r = svm.run(P, 1_000_000)
            st.vm(r)
            if r.outcome != 'loop' or r.output != want:
                st.viol(f'source file with raw characters in literals (W={W}): prints {r.output!r}, the literals denote {want!r}', case)
            else:
                st.add('traces_validated_against_impl')
    finally:
        import shutil
        shutil.rmtree(d, ignore_errors=True)


def length_program(lo, hi):
    L = ['empty @is_you() {']
    for n in range(lo, hi):
        body = ''.join(esc((37 * i + n * 11) % 256) for i in range(n))
        L.append(f'write("{body}"); write("{body}".length); write("{body}" is bool);' + (f' write("{body}"[{n - 1}]); write("{body}"[{n // 2}]);' if n else '') + ' writeln();')
    L.append('}')
    return '\n'.join(L)


ARR_VALUES = {
    'int': lambda n, W: [str(v) for v in ([0, 1, -1, 255, 256, -256, (1 << (8 * W - 1)) - 1, -(1 << (8 * W - 1)), 12345, -12345] * 5)[:n]],
    'byte': lambda n, W: [("'\\x%02x'" % ((i * 53 + 7) % 256)) for i in range(n)],
    'string': lambda n, W: ['"' + ''.join(esc((i * 29 + k * 3) % 256) for k in range(i % 4)) + '"' for i in range(n)],
}
BOOL_PATTERNS = ['zeros', 'ones', 'alt', 'single']


def bool_values(n, pat, k=0):
    if pat == 'zeros':
        return ['false'] * n
    if pat == 'ones':
        return ['true'] * n
    if pat == 'alt':
        return ['true' if i % 2 == 0 else 'false' for i in range(n)]
    return ['true' if i == k else 'false' for i in range(n)]


SHOW = {
    'int': "for (int i = 0; i < a.length; i += 1) { write(a[i]); write(','); }",
    'byte': "for (int i = 0; i < a.length; i += 1) { write(a[i]); } write(a);",
    'bool': "for (int i = 0; i < a.length; i += 1) { write((a[i] is byte + 48) is byte); }",
    'string': "for (int i = 0; i < a.length; i += 1) { write(a[i]); write(a[i].length); write(','); }",
}
STORAGES = ['global_const', 'global_mut', 'local_const', 'local_mut', 'passed']


def array_program(el, vals, storage):
    lit = '[' + ', '.join(vals) + ']'
    show = SHOW[el] + ' write(a.length); writeln();'
    if storage == 'global_const':
        return f'const {el}[] a = {lit};\nempty @is_you() {{ {show} }}\n'
    if storage == 'global_mut':
        return f'{el}[] a = {lit};\nempty @is_you() {{ {show} }}\n'
    if storage == 'local_const':
        return f'empty @is_you() {{ const {el}[] a = {lit}; {show} }}\n'
    if storage == 'local_mut':
        return f'empty @is_you() {{ {el}[] a = {lit}; {show} }}\n'
    return f'empty sh(const {el}[] a) {{ {show} }}\nempty @is_you() {{ sh({lit}); }}\n'


def items(tier):
    out = []
    i = 0
    for lo in range(0, 256, 16):
        out.append((i, 'single', lo))
        i += 1
    out.append((i, 'raw', 0))
    i += 1
    firsts = range(256) if tier == 'thorough' else [0x5c, 0x22, 0x27, 0x0a, 0x0d, 0x00, 0xff, 0x41, 0x3b, 0x20, 0x7f, 0x80]
    for a in firsts:
        out.append((i, 'pair', a))
        i += 1
    if tier == 'thorough':
        # triples: two special bytes followed by every byte, as a string and as a constant byte array
        for a in SPECIALS:
            for b in SPECIALS:
                out.append((i, 'triple', a, b))
                i += 1
    for lo in range(0, 65, 13):
        out.append((i, 'len', lo))
        i += 1
    out.append((i, 'file'))
    i += 1
    for bs in ([0x41], [0x5c, 0x22], [0x00, 0xff, 0x0a], [], [0x27, 0x3b, 0x7f], [(7 * k + 33) % 256 for k in range(255)], [(5 * k + 1) % 256 for k in range(299)]):
        out.append((i, 'viaregs', bs))
        i += 1
    for n in (255, 256, 257, 300, 513):
        out.append((i, 'longstr', n))
        i += 1
    # a byte sequence that an emitter may mis-handle when it lands on a line/piece boundary, at EVERY position of a long constant
    for k in range(len(SLIDE_TOKENS)):
        out.append((i, 'slide', k))
        i += 1
    for k in range(len(SLIDE_CHARS)):
        out.append((i, 'slidearr', k))
        i += 1
    import itertools as _it
    for vals in ([1, 2, 3, 200], [104, 105, 33], [0], [255, 0, 255, 0, 255, 0, 255, 0, 1]):
        for order in _it.permutations('bicy', 4):
            if tier == 'thorough' or order[0] < order[1]:
                out.append((i, 'widths', vals, ''.join(order)))
                i += 1
    lens = range(0, 41) if tier == 'thorough' else [0, 1, 2, 7, 8, 9, 15, 16, 17, 31, 32, 33, 40]
    for el in ('int', 'byte', 'string'):
        for st_ in STORAGES:
            out.append((i, 'arr', el, st_, list(lens)))
            i += 1
    for st_ in STORAGES:
        for pat in BOOL_PATTERNS:
            out.append((i, 'boolarr', st_, pat, list(lens)))
            i += 1
    return out


def run_item(item, tier):
    st = Stats()
    kind = item[1]
    st.count('family_items', kind)
    Ws = [2, 3, 4] if tier == 'thorough' else [2, (3, 4)[item[0] % 2]]
    if kind == 'single':
        bs = list(range(item[2], item[2] + 16))
        run_program(st, single_program(bs), [[]], Ws, f'single bytes {item[2]}..{item[2] + 15}')
        st.add('cases', 16)
        st.sample({'bytes': bs[:4], 'uses': 'write string/char, middle of string, index, length, byte var, is byte[], parameter, is bool, byte array, string var'})
    elif kind == 'raw':
        bs = [b for b in range(0x20, 0x100) if b not in (0x22, 0x27, 0x5c, 0x7f) and not 0x80 <= b < 0xa0]
        run_program(st, raw_program(bs[:0x5f - 3]), [[]], Ws, 'raw printable ASCII characters')
        st.add('cases', len(bs))
    elif kind == 'pair':
        a = item[2]
        run_program(st, pair_program(a), [[]], Ws[:1], f'pairs with first byte {a:#x}')
        st.add('cases', 256)
        st.sample({'pair_first_byte': a, 'second_bytes': 'all 256'})
    elif kind == 'triple':
        a, b = item[2], item[3]
        run_program(st, triple_program(a, b), [[]], Ws[:1], f'triples starting {a:#x} {b:#x}')
        st.add('cases', 256)
    elif kind == 'longstr':
        n = item[2]
        body = ''.join(esc((37 * i + n) % 256) for i in range(n))
        src = (f'string gl = "{body}";\nempty show(const byte[] v) {{ write(v.length); write(v[v.length - 1]); }}\nempty @is_you() {{ string l = "{body}"; '
               f'write("{body}"); writeln("{body}".length); write(l.length); write(l[{n - 1}]); write(l[255 % {n}]); show(l is byte[]); show(gl); show("{body}"); write(gl); '
               'const byte[] v = l is byte[]; write(v); write(v.length); write(l is bool); writeln(); }\n')
        run_program(st, src, [[]], Ws, f'string of {n} bytes written, measured, indexed and viewed as bytes')
        st.add('cases')
    elif kind == 'slide':
        tok = SLIDE_TOKENS[item[2]]
        L = 150
        body = []
        for p in range(0, L - len(tok) + 1, 1 if tier == 'thorough' or len(tok) < 3 else 1):
            text = 'a' * p + ''.join(esc(b) for b in tok) + 'a' * (L - len(tok) - p)
            body.append(f'write("{text}"); writeln("{text}".length);')
        src = 'empty @is_you() {\n' + '\n'.join(body) + '\n}\n'
        run_program(st, src, [[]], Ws[:1], f'the bytes {tok} at every position of a {L}-byte string literal')
        st.add('cases', len(body))
        st.sample({'slide_token_bytes': tok, 'string_length': L})
    elif kind == 'slidearr':
        c = SLIDE_CHARS[item[2]]
        L = 48
        glob, body = [], []
        for p in range(L):
            els = ["'a'"] * p + [f"'{esc(c)}'" if not (0x20 <= c < 0x7f and c not in (0x27, 0x5c)) else f"'{chr(c)}'"] + ["'b'"] * (L - 1 - p)
            glob.append(f'const byte[] t{p} = [{", ".join(els)}];')
            body.append(f'write(t{p}); writeln(t{p}.length);')
            if p % 4 == 1:
                glob.append(f'const int[] u{p} = [{", ".join(els)}];')
                body.append(f'for (int k = 0; k < u{p}.length; k += 1) {{ write(u{p}[k] is byte); }} writeln(u{p}[{p}]);')
            if p % 4 == 3:
                body.append(f'write([{", ".join(els)}]); writeln();')
        src = '\n'.join(glob) + '\nempty @is_you() {\n' + '\n'.join(body) + '\n}\n'
        run_program(st, src, [[]], Ws[:1], f'the character {c:#x} at every position of a {L}-element constant byte table written with character literals')
        st.add('cases', L)
        st.sample({'slide_char': c, 'table_length': L})
    elif kind == 'len':
        run_program(st, length_program(item[2], min(65, item[2] + 13)), [[]], Ws, f'string lengths {item[2]}..')
        st.add('cases', 13)
    elif kind == 'file':
        file_case(st, Ws)
        st.add('cases')
    elif kind == 'viaregs':
        run_program(st, viaregs_program(item[2]), [[]], Ws, f'strings through variables/calls/elements, bytes {item[2]}')
        st.add('cases')
        st.sample({'string_via_registers_bytes': item[2]})
    elif kind == 'widths':
        run_program(st, widths_program(item[2], item[3]), [[]], Ws, f'equal-valued constant arrays of different element types {item[2]} order {item[3]}')
        st.add('cases')
    elif kind == 'arr':
        _, _, el, storage, lens = item
        for n in lens:
            for W in Ws:
                vals = ARR_VALUES[el](n, W)
                run_program(st, array_program(el, vals, storage), [[]], [W], f'{el}[{n}] {storage}')
            st.add('cases')
        st.sample({'array_element': el, 'storage': storage, 'lengths': lens})
    elif kind == 'boolarr':
        _, _, storage, pat, lens = item
        for n in lens:
            ks = range(n) if (pat == 'single' and tier == 'thorough') else ([0, n // 2, n - 1] if pat == 'single' and n else [0])
            for k in sorted(set(ks)):
                run_program(st, array_program('bool', bool_values(n, pat, k), storage), [[]], Ws[:1], f'bool[{n}] {pat}@{k} {storage}')
                st.add('cases')
    return st


def coverage(total, tier):
    return std_coverage(total, {
        'single': 'each of the 256 byte values as \\xHH in 12 uses (string, char immediate, inside a string, index, length, byte variable, is byte[] view, '
                  'const byte[] argument, is bool, byte array literal, string variable, string element)',
        'raw': 'every printable ASCII character written literally in strings and character literals',
        'pairs': ('all 65536 ordered byte pairs' if tier == 'thorough' else 'ordered pairs with first byte in {\\\\, ", \', LF, CR, NUL, 0xff, A, ;, space, DEL, 0x80} x all 256') + ' (+ a 3-byte string indexed in the middle)',
        'triples': ('16 x 16 special leading byte pairs x all 256 third bytes, as strings and inside a constant byte array' if tier == 'thorough' else 'thorough tier only'),
        'long strings': 'strings of 255, 256, 257, 300, 513 bytes as literal, local, global, parameter and byte view (written, .length, last and 256th index)',
        'sliding': f'{len(SLIDE_TOKENS)} byte sequences (backslash + x, two backslashes, backslash + quote, quote, backslash + n, two blanks, a spelled-out \\\\x41, LF, apostrophe, ;, #, TAB, lone backslash, NUL, ...) at every position of a 150-byte string '
                   f'literal; {len(SLIDE_CHARS)} characters (blank, comma, quotes, ;, #, backslash, TAB, -, LF, NUL, DEL) at every position of 48-element constant byte / int tables written with character literals (line folding of long directives)',
        'lengths': 'strings of every length 0..64 (written, length, truthiness, last and middle index)',
        'file': 'a source file with raw control / non-ASCII characters (TAB, BS, VT, FF, ESC, DEL, NBSP, e-acute, U+2028, tab runs) inside string and character literals, compiled by `python -m hidc`',
        'viaregs': 'string -> const byte[] views and writes where the string comes from a local, a global, a call result, a const and a mutable string array element (5 byte patterns)',
        'widths': 'constant arrays with equal values but different element types (byte/int/char-as-int/char-as-byte) declared in ' + ('every' if tier == 'thorough' else 'half of the') + ' orders, 4 value sets',
        'arrays': 'int/byte/string/bool constant arrays, lengths ' + ('0..40' if tier == 'thorough' else '0,1,2,7,8,9,15,16,17,31,32,33,40') + ' x 5 storage classes; '
                  'ints at the word extremes; bool patterns all-false/all-true/alternating/single bit at ' + ('every position' if tier == 'thorough' else 'first, middle, last'),
        'word_sizes': '2,3,4' if tier == 'thorough' else '2 and one of 3,4',
    })


def vacuity(total, tier):
    if total.get('viol'):
        return None
    if not total.get('traces_validated_against_impl'):
        return 'nothing validated'
    return None


def replay(case):
    if case.get('kind') == 'file':
        st = Stats()
        file_case(st, [2])
        return [v['msg'] for v in st.get('viol', [])]
    return replay_conformance(case)
