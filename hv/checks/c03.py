"""C03 -- Halt is defeat: a compiled program never halts.
Invariant on VM outcomes: the committed timeline of every run ends in a state cycle (win
loop, error loop or a user loop); it is never a committed halt (a halt reached with an empty
choice stack) and never a trap (pc outside the code, access outside a section, division by
zero).  Decided on family K (every function flavour x every terminal shape x nesting) and on
the program families of C01, C02, C05 and C08 re-run here, in checked builds at several word
sizes and in unchecked builds on the runs whose checked twin is fault-free."""
from ..cases import Stats, compile_case, std_coverage, describe
from ..gen import seq, tt
from .. import svm
from . import c05, c08

LEVEL = 'model_checking'

FAULTS = {'stack_overflow', 'division_by_zero', 'out_of_bounds', 'nonlocal_preempt'}

# ---- family K ---------------------------------------------------------------
K_SHAPES = {
    'fall': "write('a');",
    'return': "write('a'); return;",
    'win': "write('a'); all_is_win();",
    'broken': "write('a'); all_is_broken();",
    'forever': "write('a'); while (true) {}",
    'forever_out': "while (true) { write('o'); }",
    'for_break': "for (;;) { x += 1; if (x > 3) { break; } } write('a');",
    'for_nobreak': "for (;;) { x += 1; if (x > 300) { x = 0; } }",
    'fault': "write('a'); write(10 / (x - x)); write('n');",
    'oob': "int[] q = [1]; write(q[x + 1]);",
    'sleep': "sleep(x); debug(); progress(); write('a');",
    'emptywrites': "write(\"\"); write(\"\" is byte[]); write(EB); byte zb[0]; write(zb); const byte[] lb = []; write(lb); writeln(EB.length);",
    'userterminal': "all_is_broken(\"why\"); write('a'); all_is_win(x); write('b');",
}
K_DEFEAT_SHAPES = {
    'consttrue': "write('a'); !truth_is_defeat(true); write('b');",
    'constfold': "write('a'); !truth_is_defeat(1 < 2 and KT); write('b');",
    'constfalse': "write('a'); !truth_is_defeat(false or 2 < 1); write('b'); !truth_is_defeat(not KT);",
    'defeat': "write('a'); !is_defeat();",
    'tid': "write('a'); !truth_is_defeat(x == 1); write('b');",
    'preempt_ret': "preempt { write('p'); return; } !truth_is_defeat(x == 1); write('b');",
}
K_WRAPS = {
    'plain': "{B}",
    'if': "if (x == 0) {{ {B} }} write('z');",
    'ifelse': "if (x == 1) {{ write('e'); }} else {{ {B} }}",
    'loop': "for (int i = 0; i < 2; i += 1) {{ {B} }} write('z');",
    'ifloop': "if (x < 2) {{ for (int i = 0; i < 2; i += 1) {{ {B} }} }} write('z');",
}


K_PRE = "const byte[] EB = []; const bool KT = true;\nempty all_is_broken(string why) { write(why); }\nempty all_is_win(int code) { write(code); }\n"


def k_programs():
    return [(k, K_PRE + src) for k, src in _k_programs()]


def _k_programs():
    out = []
    for wk, w in K_WRAPS.items():
        for sk, s in K_SHAPES.items():
            body = w.format(B=s)
            out.append((('ordinary', wk, sk), f"empty f(int x) {{ {body} }}\nempty @is_you(int x) {{ f(x); write('m'); f(x + 1); write('w'); }}\n"))
            out.append((('you', wk, sk), f"empty @y(int x) {{ {body} }}\nempty @is_you(int x) {{ @y(x); write('m'); @y(x + 1); write('w'); }}\n"))
            out.append((('entry', wk, sk), f"empty @is_you(int x) {{ {body} }}\n"))
            for h in ('undo', 'stop'):
                out.append((('defeatfn/' + h, wk, sk),
                            f"empty !d(int x) {{ {body} }}\nempty @is_you(int x) {{ try {{ !d(x); write('t'); !d(x + 1); write('T'); }} {h} {{ write('h'); }} write('w'); }}\n"))
                out.append((('trybody/' + h, wk, sk),
                            f"empty @is_you(int x) {{ try {{ {body} write('T'); }} {h} {{ write('h'); }} write('w'); }}\n"))
        for sk, s in K_DEFEAT_SHAPES.items():
            body = w.format(B=s)
            for h in ('undo', 'stop'):
                out.append((('defeatfn/' + h, wk, sk),
                            f"empty !d(int x) {{ {body} }}\nempty @is_you(int x) {{ try {{ !d(x); write('t'); !d(x + 1); write('T'); }} {h} {{ write('h'); }} write('w'); }}\n"))
                out.append((('trybody/' + h, wk, sk),
                            f"empty @is_you(int x) {{ try {{ {body} write('T'); }} {h} {{ write('h'); }} write('w'); }}\n"))
                out.append((('handler/' + h, wk, sk),
                            f"empty @is_you(int x) {{ try {{ !is_defeat(); }} {h} {{ try {{ {body} }} undo {{ write('u'); }} }} write('w'); }}\n"))
    return out


K_ARGVS = [['0'], ['1'], ['2']]


def items(tier):
    out = []
    i = 0
    kp = k_programs()
    for k in range(0, len(kp), 8):
        out.append((i, 'K', list(range(k, min(len(kp), k + 8)))))
        i += 1
    step = 1 if tier == 'thorough' else 6
    for j, it in enumerate(seq.family_E('quick') + seq.family_S('quick')):
        if j % step == 0:
            out.append((i,) + it)
            i += 1
    for it in seq.family_F(tier):
        out.append((i,) + it)
        i += 1
    for j, it in enumerate(tt.family_T('quick') + tt.family_H('quick') + tt.family_Q('quick') + tt.family_R('quick')):
        if j % step == 0:
            out.append((i,) + it)
            i += 1
    for it in tt.family_P(tier):
        out.append((i,) + it)
        i += 1
    c5 = [x for x in c05.items(tier) if x[1] in ('IDX', 'DIV', 'STR')]
    for j, it in enumerate(c5):
        if j % step == 0:
            out.append((i, 'C05') + tuple(it[1:]))
            i += 1
    n8 = len(c08.programs())
    for j in range(0, n8, step):
        out.append((i, 'X', j))
        i += 1
    return out


_KP = None
_X = None


def sources(item, tier):
    """-> list of (tag, source, argvs)"""
    global _KP, _X
    fam = item[1]
    if fam == 'K':
        if _KP is None:
            _KP = k_programs()
        return [(f'K{list(_KP[k][0])}', _KP[k][1], K_ARGVS) for k in item[2]]
    if fam == 'E':
        return [('E', seq.build_E(item[2]), seq.E_ARGVS)]
    if fam == 'S':
        return [('S', seq.build_S(item[2]), seq.S_ARGVS)]
    if fam == 'F':
        s, a = seq.F_PROGRAMS[item[2]]
        return [('F', s, a)]
    if fam == 'T':
        return [('T', tt.build_T(item[2]), tt.T_ARGVS)]
    if fam == 'H':
        return [('H', tt.build_H(item[2]), tt.H_ARGVS)]
    if fam == 'Q':
        return [('Q', tt.build_Q(item[2]), tt.Q_ARGVS)]
    if fam == 'R':
        return [('R', tt.build_R(item[2]), tt.T_ARGVS)]
    if fam == 'Q2':
        return [('Q2', tt.build_Q2(item[2]), tt.Q_ARGVS)]
    if fam == 'P':
        return [('P', tt.build_P(item[2]), tt.P_ARGVS)]
    if fam == 'C05':
        kind = item[2]
        if kind == 'IDX':
            _, _, _, el, storage, L, access = item
            return [(f'IDX[{el},{storage},{L},{access}]', c05.idx_program(el, storage, L, access), [[str(v)] for v in c05.idx_values(L, 2)])]
        if kind == 'STR':
            k = item[3]
            return [(f'STR[{k}]', c05.STR_PROGS[k], [[str(v)] + c05.STR_EXTRA.get(k, []) for v in c05.idx_values(5, 2)])]
        if kind == 'DIV':
            k = item[3]
            vals = [-32768, -7, -1, 0, 1, 7, 32767]
            return [(f'DIV[{k}]', c05.DIV_PROGS[k], [[str(a), str(b)] for a in vals for b in vals])]
    if fam == 'X':
        if _X is None:
            _X = c08.programs()
        key, src = _X[item[2]]
        return [(f'X{list(key)}', src, [[n, '2'] for n in c08.NS])]
    raise ValueError(item)


def check_never_halts(st, tag, src, argvs, Ws, unchecked_too=True):
    for W in Ws:
        lines, err = compile_case(src, W)
        if err:
            st.add('evaluations')
            st.viol(f'{tag}: not compiled: {err}', {'kind': 'nohalt', 'src': src, 'argv': argvs[0], 'W': W, 'unchecked': False, 'tag': tag})
            continue
        ulines = None
        for argv in argvs:
            r = _one(st, tag, src, lines, argv, W, False)
            if r is None or not unchecked_too:
                continue
            if any(f in FAULTS for f in r.flags):
                st.add('faulting_runs')
                continue
            if ulines is None:
                ulines, err = compile_case(src, W, unchecked=True)
                if err:
                    st.viol(f'{tag}: unchecked build not compiled: {err}', {'kind': 'nohalt', 'src': src, 'argv': argv, 'W': W, 'unchecked': True, 'tag': tag})
                    break
            _one(st, tag, src, ulines, argv, W, True)


def _one(st, tag, src, lines, argv, W, unchecked):
    case = {'kind': 'nohalt', 'src': src, 'argv': list(argv), 'W': W, 'unchecked': unchecked, 'tag': tag}
    st.add('evaluations')
    try:
        P = svm.assemble(lines, argv, strict_header=True)
    except svm.AsmError as e:
        st.viol(f'{tag}: assembler rejects output: {e}', case)
        return None
    r = svm.run(P, 3_000_000, svm.Monitor(mem=False, scope=False, flow=True))
    st.vm(r)
    st.count('dims', f'W{W}' + ('u' if unchecked else ''))
    if r.outcome == 'budget':
        st.add('inconclusive')
        return None
    if r.outcome == 'halt':
        st.viol(f'{tag}: COMMITTED HALT (W={W}, argv={argv}, unchecked={unchecked}) after {svm.fmt_events(r.pre)[:200]} at pc={r.final_pc}', case)
        return None
    if r.outcome == 'trap':
        st.viol(f'{tag}: machine trap {r.trap} (W={W}, argv={argv}, unchecked={unchecked})', case)
        return None
    for v in r.violations:
        st.viol(f'{tag}: monitor[{v["monitor"]}] {v["msg"]}', case)
        return None
    st.add('traces_validated_against_impl')
    kind = 'error' if 'error' in r.flags else ('win' if 'win' in r.flags else 'runs_forever')
    st.count('outcomes', kind)
    return r


def run_item(item, tier):
    st = Stats()
    st.count('family_items', item[1])
    Ws = [2, 3, 4, 8] if (tier == 'thorough' or item[1] == 'K') else [2, (3, 4, 8)[item[0] % 3]]
    for tag, src, argvs in sources(item, tier):
        check_never_halts(st, tag, src, argvs, Ws)
        st.add('cases')
    if item[1] == 'K':
        key, src = _KP[item[2][0]]
        st.sample({'family': 'K', 'flavour': key[0], 'wrap': key[1], 'terminal_shape': key[2], 'source': src})
    return st


def coverage(total, tier):
    cov = std_coverage(total, {
        'K': f'{len(k_programs())} programs: terminal shapes {sorted(K_SHAPES) + sorted(K_DEFEAT_SHAPES)} x wrappers {sorted(K_WRAPS)} x '
             'flavours (ordinary, you, entry point, defeat function under undo/stop, try body, handler); x in 0,1,2; W in 2,3,4,8; '
             'checked, and unchecked where the checked twin raises no fault',
        'reused families': 'E, S, F (C01); T, H, Q, P, R (C02); IDX, STR, DIV (C05); X (C08): '
                           + ('all quick-size batches' if tier == 'thorough' else 'every 6th quick-size batch') + ', same inputs',
        'invariant': 'VM outcome is a state cycle; never a committed halt, never a trap; no fall-through between functions',
    })
    cov['faulting_runs_excluded_from_unchecked'] = total.get('faulting_runs', 0)
    return cov


def vacuity(total, tier):
    if total.get('viol'):
        return None
    if total.get('speculative_halts', 0) == 0:
        return 'no halt instruction was ever reached speculatively'
    oc = total.get('outcomes', {})
    if len(oc) < 3:
        return f'expected win, error and runs_forever outcomes, got {oc}'
    return None


def replay(case):
    st = Stats()
    lines, err = compile_case(case['src'], case['W'], unchecked=case['unchecked'])
    if err:
        return [str(err)]
    _one(st, case['tag'], case['src'], lines, case['argv'], case['W'], case['unchecked'])
    return [v['msg'] for v in st.get('viol', [])]
