"""C12 -- lexing is exact and independent of layout.
hidc.lexer.lex is compared, token by token (class, value, span), with the independent
reference tokenizer hv.ref.lexer on exhaustively enumerated texts: every token alone and
every ordered pair of tokens under eight separators; every string over the symbol characters
up to a length bound; every string over an integer-literal alphabet up to a length bound;
every byte escape, every single-character escape, every raw character of the first 256 code
points and every \\u{..} scalar value / surrogate (thorough: all 0x110000).  Layout
independence: every seed program is re-laid-out under six policies from the reference token
stream; hidc must produce the same token sequence and the same instructions."""
import glob
import os

from ..cases import Stats
from .. import hid
from ..ref import lexer as rlex
from ..ref.core import pprog
from ..ref.parser import parse_program

LEVEL = 'exploration'

from hidc.lexer import tokens as htok      # noqa: E402
from hidc.lexer import lex as hlex, SourceCode   # noqa: E402
from hidc.errors import LexerError          # noqa: E402


def impl_tokens(text):
    """-> ('ok', [(kind, value, start, end)]) or ('err', (line, col)) or ('crash', repr)."""
    out = []
    try:
        for lx in hlex(SourceCode.from_string(text)):
            t = lx.token
            if isinstance(t, htok.BoolToken):
                kv = ('bool', t.data)
            elif isinstance(t, htok.EnumToken):
                s = str(t)
                kv = ('kw', s) if s in rlex.KEYWORDS else ('sym', s)
            elif isinstance(t, htok.Ident):
                kv = ('ident', (t.flavor.value, t.base_name))
            elif isinstance(t, htok.IntToken):
                kv = ('int', t.data)
            elif isinstance(t, htok.CharToken):
                kv = ('char', t.data)
            elif isinstance(t, htok.StringToken):
                kv = ('str', t.data)
            else:
                return 'crash', f'unknown token {t!r}'
            out.append(kv + ((lx.span.start.line, lx.span.start.col), (lx.span.end.line, lx.span.end.col)))
        return 'ok', out
    except LexerError as e:
        return 'err', str(e)
    except Exception as e:
        return 'crash', f'{type(e).__name__}: {e}'


def ref_tokens(text):
    try:
        return 'ok', rlex.tokenize(text)
    except rlex.RefLexError as e:
        return 'err', str(e)


def compare_file(st, text, what):
    """Write `text` to a file, load it the way the command-line driver does, and compare the token stream with the reference
    tokenizer applied to the same characters (line breaks read as universal newlines)."""
    import tempfile
    st.add('evaluations')
    fd, path = tempfile.mkstemp(suffix='.hid', prefix='hv_c12_')
    try:
        with os.fdopen(fd, 'wb') as f:
            f.write(text.encode('utf-8'))
        try:
            src = SourceCode.from_file(path)
            got = ('ok', [])
            for lx in hlex(src):
                t = lx.token
                if isinstance(t, htok.BoolToken):
                    kv = ('bool', t.data)
                elif isinstance(t, htok.EnumToken):
                    kv = ('kw', str(t)) if str(t) in rlex.KEYWORDS else ('sym', str(t))
                elif isinstance(t, htok.Ident):
                    kv = ('ident', (t.flavor.value, t.base_name))
                else:
                    kv = ({htok.IntToken: 'int', htok.CharToken: 'char', htok.StringToken: 'str'}[type(t)], t.data)
                got[1].append(kv + ((lx.span.start.line, lx.span.start.col), (lx.span.end.line, lx.span.end.col)))
        except LexerError as e:
            got = ('err', str(e))
        except Exception as e:
            got = ('crash', f'{type(e).__name__}: {e}')
    finally:
        os.unlink(path)
    uni = text.replace('\r\n', '\n').replace('\r', '\n')
    want = ref_tokens(uni)
    case = {'kind': 'file', 'text': text}
    if got[0] == 'crash':
        st.viol(f'{what}: loading/lexing the file raised {got[1]} for {text!r}', case)
    elif want[0] != got[0]:
        st.viol(f'{what}: file with contents {text!r}: reference says {want[0]}, hidc says {got[0]} ({got[1] if got[0] == "err" else ""})', case)
    elif want[0] == 'ok' and want[1] != got[1]:
        k = next((i for i in range(min(len(want[1]), len(got[1]))) if want[1][i] != got[1][i]), min(len(want[1]), len(got[1])))
        st.viol(f'{what}: file with contents {text!r}: token {k} differs: reference {want[1][k] if k < len(want[1]) else None} hidc {got[1][k] if k < len(got[1]) else None}', case)
    else:
        st.add('accepted' if want[0] == 'ok' else 'rejected')
        st.add('files_compared')


def compare(st, text, what):
    st.add('evaluations')
    a = ref_tokens(text)
    b = impl_tokens(text)
    if b[0] == 'crash':
        st.viol(f'{what}: lexer raised {b[1]} on {text!r}', {'kind': 'lex', 'text': text})
        return
    if a[0] != b[0]:
        st.viol(f'{what}: on {text!r} reference says {a[0]} ({a[1] if a[0] == "err" else len(a[1])}) but hidc says {b[0]} '
                f'({b[1] if b[0] == "err" else [t[:2] for t in b[1]]})', {'kind': 'lex', 'text': text})
        return
    if a[0] == 'err':
        st.add('rejected')
        return
    if a[1] != b[1]:
        k = next((i for i in range(min(len(a[1]), len(b[1]))) if a[1][i] != b[1][i]), min(len(a[1]), len(b[1])))
        st.viol(f'{what}: on {text!r} token {k} differs: reference {a[1][k] if k < len(a[1]) else None} hidc {b[1][k] if k < len(b[1]) else None}',
                {'kind': 'lex', 'text': text})
        return
    st.add('accepted')
    st.add('tokens', len(a[1]))


TOKENS = (sorted(rlex.KEYWORDS) + ['true', 'false'] + rlex.SYMBOLS +
          ['0', '7', '1_000', '1_000_000', '0xF_F_F', '0b1_0_1', '0o1_2_3', '007', '0x1F', '0o17', '0b101', '12', '00', '0xg',
           "'a'", "'\\n'", "'\\x41'", "'\\''", "'\"'", "'\\\\'",
           '""', '"hi"', '"a\\"b"', '"// not a comment"', '"\\u{1F30E}"',
           'x', '_a1', '@you', '!def', 'iffy', 'is_', 'length', 'x9', '@is_you', '!is_defeat'])
SEPS = ['', ' ', '\t', '\n', ' // c "\' @ !\n', '\r\n', '\n\n', '\f', '  \t ']
SYMCHARS = '+-*/%=!<>?;,.(){}[]'
INTCHARS = '0179afxob_'


def items(tier):
    out = []
    i = 0
    for a in range(len(TOKENS)):
        out.append((i, 'pairs', a))
        i += 1
    n = 5 if tier == 'thorough' else 3
    for c in SYMCHARS:
        out.append((i, 'sym', c, n))
        i += 1
    m = 6 if tier == 'thorough' else 4
    for c in INTCHARS:
        out.append((i, 'int', c, m))
        i += 1
    out.append((i, 'esc'))
    i += 1
    out.append((i, 'files'))
    i += 1
    if tier == 'thorough':
        for a in range(len(TOKENS)):
            out.append((i, 'triples', a))
            i += 1
    if tier == 'thorough':
        for lo in range(0, 0x110000, 0x4000):
            out.append((i, 'uni', lo, lo + 0x4000))
            i += 1
    else:
        out.append((i, 'unib'))
        i += 1
    seeds = layout_seeds()
    for k in range(len(seeds)):
        out.append((i, 'layout', k))
        i += 1
    return out


def _strings(alpha, n):
    cur = ['']
    for _ in range(n):
        cur = [s + c for s in cur for c in alpha]
        yield from cur


_SEEDS = None


def layout_seeds():
    global _SEEDS
    if _SEEDS is None:
        seeds = []
        for f in sorted(glob.glob(os.path.join(hid.REPO, 'examples', '*.hid'))):
            seeds.append((os.path.basename(f), open(f, encoding='utf-8').read()))
        from ..gen import seq, tt
        from . import c03, c08
        seeds.append(('E0', seq.build_E(seq.family_E('quick')[0][1])))
        seeds.append(('E300', seq.build_E(seq.family_E('quick')[300][1])))
        seeds.append(('S5', seq.build_S(seq.family_S('quick')[5][1])))
        for k, (s, _) in enumerate(seq.F_PROGRAMS):
            seeds.append((f'F{k}', s))
        seeds.append(('T9', tt.build_T(tt.family_T('quick')[9][1])))
        seeds.append(('H3', tt.build_H(tt.family_H('quick')[3][1])))
        seeds.append(('Q1', tt.build_Q(tt.family_Q('quick')[1][1])))
        kp = c03.k_programs()
        for k in range(0, len(kp), 37):
            seeds.append((f'K{k}', kp[k][1]))
        xp = c08.programs()
        for k in range(0, len(xp), 41):
            seeds.append((f'X{k}', xp[k][1]))
        _SEEDS = seeds
    return _SEEDS


def relayout(text, policy):
    """Re-join the reference token stream of `text` under a layout policy (token texts are the original slices)."""
    toks = rlex.tokenize(text)
    lines = text.split('\n')
    parts = [lines[t[2][0]][t[2][1]:t[3][1]] for t in toks]
    if policy == 'one_line':
        return ' '.join(parts)
    if policy == 'token_per_line':
        return '\n'.join(parts) + '\n'
    if policy == 'comments':
        return ''.join(p + ' // "quoted\' @x !y /* */ \\\n' for p in parts)
    if policy == 'tabs':
        return '\t'.join(parts) + '\t'
    if policy == 'crlf':
        return '\r\n'.join(parts) + '\r\n'
    if policy == 'minimal':
        out = ''
        prev = None
        for p, t in zip(parts, toks):
            if prev is None:
                out = p
            else:
                try:
                    two = rlex.tokenize(prev + p)
                    safe = len(two) == 2 and two[0][:2] == prev_t[:2] and two[1][:2] == t[:2]
                except rlex.RefLexError:
                    safe = False
                out += p if safe else ' ' + p
            prev, prev_t = p, t
        return out
    raise ValueError(policy)


POLICIES = ['one_line', 'token_per_line', 'comments', 'tabs', 'minimal', 'crlf']


def instructions(text):
    try:
        lines = hid.compile_lines(text, 2, 64)
    except hid.CompilerError as e:
        return 'reject', f'{type(e).__name__}: {e}'
    except Exception as e:
        return 'crash', f'{type(e).__name__}: {e}'
    return 'ok', [l.strip() for l in lines if not l.strip().startswith(b';')]


def run_item(item, tier):
    st = Stats()
    kind = item[1]
    if kind == 'pairs':
        a = TOKENS[item[2]]
        compare(st, a, 'single token')
        for b in TOKENS:
            for sep in SEPS:
                compare(st, a + sep + b, 'token pair')
        st.sample({'pair_family_first_token': a, 'separators': SEPS, 'second_tokens': len(TOKENS)})
    elif kind == 'files':
        toks = ['x', '12', '"a b"', "'c'", '+=', 'while', '@you', '"tab\there"', "'\t'", '"\x0b"', '// c\tc']
        seps = [' ', '\t', '\n', '\r\n', '\r', '\t\t ', '\n\n', ' // c\n', '\f', '\x0b', '']
        for a in toks:
            for b in toks:
                for sep in seps:
                    for tail in ('', '\n', '\r\n'):
                        compare_file(st, a + sep + b + tail, 'file contents')
        for text in ('', '\n', '\r', '\r\n', ' ', '\t', 'x', 'x\n', '\ufeffx', '"unterminated\n"', '"a\rb"', "'\r'", '// only\n// comments\r// here', 'x\n\n\ny\n\n',
                     'empty @is_you() {\n\twrite("a\tb");\n}\n', '\tint\tx\t=\t1;\t'):
            compare_file(st, text, 'file shape')
        st.sample({'file_texts': 'token pairs x separators (space, tab, LF, CRLF, CR, FF, VT, comment, none) x final newline; raw tabs inside literals'})
    elif kind == 'triples':
        a = TOKENS[item[2]]
        for b in TOKENS:
            for c in TOKENS[::2]:
                compare(st, a + b + c, 'token triple without separators')
                compare(st, a + ' ' + b + '\n' + c, 'token triple with separators')
        st.sample({'triple_family_first_token': a})
    elif kind == 'sym':
        c, n = item[2], item[3]
        for s in _strings(SYMCHARS, n - 1):
            compare(st, c + s, 'symbol string')
        compare(st, c, 'symbol string')
        st.sample({'symbol_strings_starting_with': c, 'max_length': n})
    elif kind == 'int':
        c, n = item[2], item[3]
        for s in _strings(INTCHARS, n - 1):
            compare(st, c + s, 'integer-literal string')
        compare(st, c, 'integer-literal string')
        st.sample({'int_strings_starting_with': c, 'max_length': n})
    elif kind == 'esc':
        for b in range(256):
            for form in ('"\\x%02x"', "'\\x%02X'", '"a\\x%02xb"'):
                compare(st, form % b, 'byte escape')
        for c in range(0x20, 0x7f):
            compare(st, '"\\' + chr(c) + '"', 'character escape in string')
            compare(st, "'\\" + chr(c) + "'", 'character escape in char')
            compare(st, '"\\' + chr(c), 'unterminated escape')
        for c in range(0, 0x180):
            if c == 10:
                continue
            ch = chr(c)
            compare(st, '"' + ch + '"', 'raw character in string')
            compare(st, "'" + ch + "'", 'raw character in char')
            compare(st, 'a' + ch + 'b', 'raw character between identifiers')
        # text that is not in a Unicode normal form, or that case/compatibility mappings would change: must reach the
        # token value unchanged, and must not move the spans of what follows on the line
        for seq in ('e\u0301', 'A\u030a', '\u212b', '\u2126', '\u0340', '\u0344', '\u0374', '\u037e', '\u0387', '\uf900', '\ufa0e', '\U0002f800',
                    '\u1100\u1161', '\u1100\u1161\u11a8', 'a\u0315\u0300', 'a\u0300\u0315', 'q\u0323\u0307', 'q\u0307\u0323', '\ufb01', '\u00bd',
                    '\uff21', '\u0131', '\u0130', '\u00df', '\u1e9b\u0323', '\u03c2', '\u200b', '\u200d', '\ufeff', '\u00ad', '\u2028', '\u2029',
                    '\u0085', '\u00e9', '\u1e69', 's\u0323\u0307', '\u0958', '\u2000', '\u3000', '\u2160'):
            compare(st, '"' + seq + '"', 'non-normalised text in string')
            compare(st, '"' + seq + '" + x', 'non-normalised text in string, token after it')
            compare(st, '"a' + seq + 'b" "' + seq + '"', 'non-normalised text in two strings')
            compare(st, "'" + seq + "'", 'non-normalised text in char')
            compare(st, 'x // ' + seq + '\ny', 'non-normalised text in comment')
            compare(st, 'x /* ' + seq + ' */ y', 'non-normalised text in block comment')
            compare(st, 'a' + seq + 'b', 'non-normalised text between identifiers')
        for bad in ('"\\x4"', '"\\x"', '"\\xg0"', '"\\u"', '"\\u{"', '"\\u{}"', '"\\u{41"', '"\\u{g}"', "'", "''", "'ab'", '"', '"abc',
                    "'\\", '"\\', '@', '!', '@1', '!if', '@true', '@ x', '#', '$', '`', '~', '^', '&', '|', '\\', ':', '0x', '0b2', '0o8', '1__0', '_1', '1_',
                    '0x_1', '0X1F', '1e5', '1.5', '.5', 'a.b', 'x?y', 'a??b', 'a?b'):
            compare(st, bad, 'malformed/edge token')
            compare(st, 'x ' + bad + ' y', 'malformed/edge token in context')
    elif kind in ('uni', 'unib'):
        if kind == 'uni':
            rng = range(item[2], item[3])
        else:
            rng = [0, 1, 0x7f, 0x80, 0x7ff, 0x800, 0xd7ff, 0xd800, 0xdbff, 0xdc00, 0xdfff, 0xe000, 0xfffd, 0xffff, 0x10000, 0x10ffff,
                   0x110000, 0x110001, 0xffffff, 0x7fffffff, 0xffffffff, 0xfffffffff]
        for cp in rng:
            compare(st, '"\\u{%X}"' % cp, 'unicode escape')
            if cp < 0x110000 and not 0xd800 <= cp <= 0xdfff and cp not in (10, 34, 92):
                compare(st, '"' + chr(cp) + '"', 'literal character')
            if cp < 0x100 or kind == 'unib':
                compare(st, "'\\u{%x}'" % cp, 'unicode escape in char')
    elif kind == 'layout':
        name, text = layout_seeds()[item[2]]
        base_t = impl_tokens(text)
        base_i = instructions(text)
        st.add('evaluations')
        if base_t[0] != 'ok' or base_i[0] != 'ok':
            st.viol(f'layout seed {name} does not compile: {base_t if base_t[0] != "ok" else base_i}', {'kind': 'layout', 'seed': item[2], 'policy': None})
            return st
        for pol in POLICIES:
            _layout_one(st, item[2], name, text, pol, base_t, base_i)
        st.sample({'layout_seed': name, 'policies': POLICIES, 'tokens': len(base_t[1])})
    return st


def _layout_one(st, k, name, text, pol, base_t, base_i):
    case = {'kind': 'layout', 'seed': k, 'policy': pol}
    t2 = relayout(text, pol)
    st.add('evaluations')
    tt_ = impl_tokens(t2)
    if tt_[0] != 'ok' or [x[:2] for x in tt_[1]] != [x[:2] for x in base_t[1]]:
        st.viol(f'layout {pol} of {name}: token sequence changed ({tt_[0]}: {tt_[1] if tt_[0] != "ok" else ""})', case)
        return
    compare(st, t2, f'layout {pol} of {name}')
    ii = instructions(t2)
    if ii != base_i:
        d = ''
        if ii[0] == 'ok':
            j = next((n for n in range(min(len(ii[1]), len(base_i[1]))) if ii[1][n] != base_i[1][n]), -1)
            d = f'first difference at instruction {j}: {base_i[1][j] if 0 <= j < len(base_i[1]) else None} vs {ii[1][j] if 0 <= j < len(ii[1]) else None}'
        st.viol(f'layout {pol} of {name}: emitted instructions changed ({ii[0]}) {d or ii[1]}', case)
        return
    st.add('layouts_equal')


def coverage(total, tier):
    return {
        'evaluations': total.get('evaluations', 0),
        'distinct_nontrivial': total.get('rejected', 0) + total.get('layouts_equal', 0),
        'rule': 'texts are enumerated exhaustively from the alphabets below; a case is non-trivial when the reference tokenizer REJECTS '
                'the text (hidc must reject it too) or when it is a re-layout whose token sequence and instruction stream must equal '
                'the canonical layout; accepted texts are compared token by token (class, value, span)',
        'accepted_texts': total.get('accepted', 0), 'rejected_texts': total.get('rejected', 0),
        'tokens_compared': total.get('tokens', 0), 'layouts_equal': total.get('layouts_equal', 0),
        'exhaustive': True,
        'bounds': {
            'pairs': f'{len(TOKENS)} tokens (all keywords, all symbols, literal and identifier representatives) alone and in every ordered pair x {len(SEPS)} separators',
            'symbols': f'all strings of length <= {5 if tier == "thorough" else 3} over {len(SYMCHARS)} symbol characters',
            'integers': f'all strings of length <= {6 if tier == "thorough" else 4} over {INTCHARS!r}',
            'triples': ('every token x every token x every 2nd token, glued and separated' if tier == 'thorough' else 'thorough tier only'),
            'files': '11 tokens (incl. literals containing raw TAB / VT) x 11 tokens x 11 separators x 3 line endings written to real files and loaded with SourceCode.from_file, plus 16 file shapes',
            'escapes': 'all 256 \\xHH in 3 forms; every \\c for c in 0x20..0x7e in strings/chars; raw characters U+0000..U+017F; 40 character sequences that Unicode normalisation / case or compatibility mapping would change, in strings, chars, comments and between identifiers; 50 malformed shapes',
            'unicode': 'every \\u{X} and literal character for X in 0..0x10FFFF' if tier == 'thorough' else '\\u{X} at 22 boundary values incl. surrogates and out-of-range',
            'layout': f'{len(layout_seeds())} seed programs (all examples + generated programs of every family) x {POLICIES}',
        },
    }


def vacuity(total, tier):
    if total.get('viol'):
        return None
    if not total.get('rejected') or not total.get('accepted'):
        return 'accept and reject must both occur'
    if not total.get('layouts_equal'):
        return 'no layout comparison'
    return None


def replay(case):
    st = Stats()
    if case['kind'] == 'file':
        compare_file(st, case['text'], 'replay')
    elif case['kind'] == 'lex':
        compare(st, case['text'], 'replay')
    else:
        name, text = layout_seeds()[case['seed']]
        base_t = impl_tokens(text)
        base_i = instructions(text)
        if base_t[0] != 'ok' or base_i[0] != 'ok':
            return [f'seed {name} does not compile']
        for pol in ([case['policy']] if case['policy'] else POLICIES):
            _layout_one(st, case['seed'], name, text, pol, base_t, base_i)
    return [v['msg'] for v in st.get('viol', [])]
