"""C08 -- every scope exit releases exactly what the scope allocated.
Family X: scope kind x allocation x exit route, executed n in {1,2,3,5} times with canary
arrays in the enclosing scopes.  Oracles: (a) reference trace; (b) footprint invariance:
the minimal sufficient stack size found by a full sweep is the same for every n (a leak of
k bytes per exit moves it); (c) the scope monitor on every explored state: (fp, ap) unchanged
across every non-declaration statement, equal at every arrival at a loop head within one
activation, and equal to the loop-entry values at the loop's exit label."""
from ..cases import Stats, stack_sweep, replay_sweep, std_coverage, run_program, replay_conformance
from ..ref.parser import parse_program

LEVEL = 'model_checking'

PRE = """
int g = 0;
empty use(int[] a) { a[0] += 1; }
empty !dd(int v) { int[] l = [v, 3]; write('D'); !truth_is_defeat(l[0] >= 0); write('x'); }
empty !d1(int v) { byte[] bb = ['p', 'q']; !dd(v); write(bb); }
int fin(int v, int w) { return v * 10 + w % 10; }
int rev(const int[] a) { int[] m = [9, 9, 9, 9]; int t = 0; for (int i = 0; i < a.length; i += 1) { m[i] = a[a.length - 1 - i]; t = t * 10 + m[i]; } return t; }
empty dumpc(const int[] c) { write('['); write(c[0]); write(','); write(c[1]); write(']'); }
"""

ALLOCS = {
    'none': "write('n');",
    'lit': "int[] l = [it, 5]; write(l[0]);",
    'vla': "int v[x]; v[0] = it; write(v[0]);",
    'two': "int[] l = [it, 5]; byte[] q = ['a', 'b', 'c']; write(q[2]); write(l[1]);",
    'pass': "use(can1); write(can1[0]);",
    'alias': "int[] al = can1; al[1] += 1; write(al[1]);",
    'nested': "int[] l = [it, 5]; { bool[] q = [true, false, true]; write(q[2]); } write(l[0]);",
    # temporaries that live on the array stack without belonging to any variable
    'littemp': "write([it, x, it + x].length); if ([it + 1, 2] is bool) {{ write('t'); }} write([g + it, 7][1]); use([it, x]);",
    # the owner of an array ends with a compound statement that contains a non-final inner block with its own array
    'tailnest': "int[] l = [it, 5]; if (it >= 0) { { int[] y = [it, 6, 7]; write(y[2]); } int[] z = [8, it]; write(z[0]); { int yy[x]; yy[0] = 3; write(yy[0]); } write(l[1]); }",
    'vla_nested': "int v[x]; v[0] = 1; for (int j = 0; j < 2; j += 1) { int ww[x]; ww[0] = j; write(ww[0]); } write(v[0]);",
}

# scope templates: {A} = allocation, {E} = exit statement; each is placed in the iteration loop body
SCOPES = {
    'block': "{{ {A} {E} write('b'); }}",
    'if': "if (it >= 0) {{ {A} {E} write('b'); }}",
    'ifelse': "if (it < 0) {{ write('?'); }} else {{ {A} {E} write('b'); }}",
    'while': "int w = 0; while (w < 2) {{ w += 1; {A} {E} write('b'); }}",
    'for': "for (int w = 0; w < 2; w += 1) {{ {A} {E} write('b'); }}",
    'tryundo': "try {{ {A} {E} write('b'); }} undo {{ write('u'); }}",
    'trystop': "try {{ {A} {E} write('b'); }} stop {{ write('s'); }}",
    'stophandler': "try {{ !d1(it); }} stop {{ {A} {E} write('b'); }}",
    'undohandler': "try {{ !d1(it); }} undo {{ {A} {E} write('b'); }}",
    'preempt': "try {{ preempt {{ {A} {E} write('b'); }} !truth_is_defeat(it >= 0); }} undo {{ write('u'); }}",
    # the allocation precedes a try in the same loop body; the exit route leaves through the try
    'pretrystop': "{A} try {{ write('t'); {E} write('b'); }} stop {{ write('s'); }}",
    'pretryundo': "{A} try {{ write('t'); {E} write('b'); }} undo {{ write('u'); }}",
    # the allocation is the LAST thing in its block (a closing-brace reset may be merged with the outer one)
    'tailblock': "{{ write('b'); {E} {A} }}",
    'tailif': "int[] own = [it, 1]; if (it >= 0) {{ write('b'); {E} {A} }} else {{ write(own[0]); }}",
    # the stop handler does not fall through: it leaves the loop / goes on with the next iteration
    'stopbreak': "try {{ {A} {E} write('b'); }} stop {{ write('s'); break; }}",
    'stopcontinue': "try {{ {A} {E} write('b'); }} stop {{ write('s'); continue; }}",
    'pretrynested': "{A} for (int w = 0; w < 2; w += 1) {{ int[] inner = [w, it]; try {{ {E} write(inner[0]); }} stop {{ write('s'); }} }}",
}
EXITS = {
    'fall': "",
    'break': "if (it == 1) {{ break; }}",
    'continue': "if (it == 0) {{ continue; }}",
    'defeat': "!truth_is_defeat(it == 1);",
    'deepdefeat': "!d1(it - 1);",
    # the loop is left (or continued) from inside a preempt block, which runs only when defeat is otherwise unavoidable
    'preemptbreak': "preempt {{ write('p'); break; }} !truth_is_defeat(it == 1);",
    'preemptcontinue': "preempt {{ continue; }} !truth_is_defeat(it != 1);",
}
# function scopes are separate: the allocation lives in a callee, exits are fall / return / return from a nested loop
FUNCS = {
    'fall': "empty work(int it, int x, int[] can1) {{ {A} write('b'); }}",
    'return': "empty work(int it, int x, int[] can1) {{ {A} if (it >= 0) {{ return; }} write('b'); }}",
    'loopreturn': "empty work(int it, int x, int[] can1) {{ for (int k = 0; k < 3; k += 1) {{ {A} if (k == 1) {{ return; }} write('b'); }} }}",
    'valreturn': "int work(int it, int x, int[] can1) {{ {A} for (int k = 0; k < 2; k += 1) {{ int[] z = [k, it]; if (k == 1) {{ return z[1]; }} }} return 0; }}",
    'tailcall': "int work(int it, int x, int[] can1) {{ {A} int[] loc = [4, 3, 2, 1]; return fin(rev(loc), it); }}",
    'tailcall2': "int work(int it, int x, int[] can1) {{ int[] loc = [4, 3, 2, 1]; {A} if (it == 1) {{ return fin(rev(loc), rev(can1)); }} return fin(rev(loc) + rev(loc), it); }}",
    'youtry': "empty @work(int it, int x, int[] can1) {{ try {{ {A} if (it >= 0) {{ return; }} write('b'); }} stop {{ write('s'); }} }}",
    # defeat is caught while arrays of the try body (and of defeat functions below it) are live, and the stop handler leaves
    # by return / break; the function has no array of its own outside the try
    'youstopret': "empty @work(int it, int x, int[] can1) {{ try {{ {A} !truth_is_defeat(it >= 0); write('b'); }} stop {{ write('s'); return; }} write('e'); }}",
    'youstopretdeep': "empty @work(int it, int x, int[] can1) {{ try {{ {A} !d1(it); write('b'); }} stop {{ write('s'); if (it >= 0) {{ return; }} }} write('e'); }}",
    'youstopretval': "int @work(int it, int x, int[] can1) {{ try {{ {A} !d1(it); write('b'); }} stop {{ return 5 + it; }} return 0; }}",
    'youstopbreak': "empty @work(int it, int x, int[] can1) {{ for (int k = 0; k < 3; k += 1) {{ try {{ {A} !d1(k); write('b'); }} stop {{ write('s'); break; }} }} write('e'); }}",
    'youtryloop': "empty @work(int it, int x, int[] can1) {{ for (int k = 0; k < 3; k += 1) {{ try {{ {A} if (k == 1) {{ break; }} if (k == 0) {{ continue; }} "
                  "write('b'); }} stop {{ write('s'); }} }} }}",
}

TAIL = " dumpc(can1); dumpc(can2); int[] fresh = [8, 9]; dumpc(fresh); dumpc(can1); write(x);"


def programs():
    out = []
    for sk, stpl in SCOPES.items():
        for ak, a in ALLOCS.items():
            for ek, e in EXITS.items():
                if ek in ('defeat', 'deepdefeat', 'preemptbreak', 'preemptcontinue') and sk not in ('tryundo', 'trystop', 'preempt', 'pretrystop', 'pretryundo', 'pretrynested', 'stopbreak', 'stopcontinue'):
                    continue
                if sk == 'preempt' and ek == 'deepdefeat':
                    continue
                if sk in ('tailblock', 'tailif') and ek == 'continue':
                    continue        # the exit precedes the allocation here: with one iteration the allocation would never run
                body = stpl.format(A=a, E=e.format())
                src = (PRE + "empty @is_you(int n, int x) { int[] can1 = [1, 2]; int[] can2 = [3, 4];\n"
                       f"for (int it = 0; it < n; it += 1) {{ write('('); {body} write(')'); }}" + TAIL + " }\n")
                out.append(((sk, ak, ek), src))
    for fk, ftpl in FUNCS.items():
        for ak, a in ALLOCS.items():
            f = ftpl.format(A=a)
            callx = 'write(work(it, x, can1));' if fk in ('valreturn', 'tailcall', 'tailcall2') else 'write(@work(it, x, can1));' if fk == 'youstopretval' else ('@work(it, x, can1);' if fk.startswith('you') else 'work(it, x, can1);')
            src = (PRE + f + "\nempty @is_you(int n, int x) { int[] can1 = [1, 2]; int[] can2 = [3, 4];\n"
                   f"for (int it = 0; it < n; it += 1) {{ write('('); {callx} write(')'); }}" + TAIL + " }\n")
            out.append((('func:' + fk, ak, 'ret'), src))
    return out


NS = ['1', '2', '3', '5']
NS_QUICK = ['1', '3']


def items(tier):
    progs = programs()
    out = []
    for pi in range(len(progs)):
        if tier == 'quick' and progs[pi][0][0] == 'tailif' and progs[pi][0][1] not in ('lit', 'vla', 'nested', 'tailnest'):
            continue
        out.append((pi, pi))
    return out


_PROGS = None


def run_item(item, tier):
    global _PROGS
    if _PROGS is None:
        _PROGS = programs()
    idx, pi = item
    key, src = _PROGS[pi]
    st = Stats()
    prog = parse_program(src)
    tag = f'X{list(key)}'
    st.count('family_items', key[0])
    Ws = [2, 4] if tier == 'thorough' else [(2, 4)[pi % 2]]
    sweepable = key[0] not in ('tryundo', 'preempt', 'undohandler', 'pretryundo')      # speculation breaks the prefix oracle below S_min
    for W in Ws:
        for x in (['2'] if tier == 'quick' else ['2', '0', '4']):
            if sweepable:
                smins = {}
                for n in (NS if tier == 'thorough' else NS_QUICK):
                    smins[n] = stack_sweep(st, src, prog, [n, x], W, tag, above=2)
                    st.add('cases')
                vals = set(v for v in smins.values() if v is not None)
                if len(vals) > 1:
                    st.viol(f'{tag}: stack footprint depends on the number of iterations: S_min by n = {smins} (W={W}, x={x})',
                            {'kind': 'footprint', 'src': src, 'prog': repr(prog), 'W': W, 'x': x, 'tag': tag})
                elif vals:
                    st.add('footprint_invariant')
            else:
                ns = NS if tier == 'thorough' else NS_QUICK
                run_program(st, src, [[n, x] for n in ns], [W], tag, prog=prog)
                st.add('cases', len(ns))
    st.sample({'scope': key[0], 'allocation': key[1], 'exit': key[2], 'iterations': NS})
    return st


def coverage(total, tier):
    cov = std_coverage(total, {
        'X': f'{len(programs())} programs = scope kind {sorted(SCOPES)} + function scopes {sorted(FUNCS)} x allocation {sorted(ALLOCS)} x '
             f'exit route {sorted(EXITS)} + return routes; iterations n in ' + str(NS if tier == 'thorough' else NS_QUICK) + '; VLA length x in ' + ('2' if tier == 'quick' else '2,0,4'),
        'oracles': 'reference trace with canary arrays before/after and a fresh allocation after the loop; full stack sweep per n and '
                   'equality of S_min over n (not for scopes with speculation, where only trace + monitors apply); scope monitor',
        'word_sizes': '2,4' if tier == 'thorough' else 'alternating 2 / 4',
    })
    cov['footprint_invariant_groups'] = total.get('footprint_invariant', 0)
    cov['sweeps'] = total.get('sweeps', 0)
    cov['smin_histogram'] = total.get('smin', {})
    return cov


def vacuity(total, tier):
    if total.get('viol'):
        return None
    if total.get('monitor_points', {}).get('scope', 0) == 0:
        return 'scope monitor sampled nothing'
    if not total.get('footprint_invariant'):
        return 'no footprint comparison was made'
    return None


def replay(case):
    if case.get('kind') == 'sweep':
        return replay_sweep(case)
    if case.get('kind') == 'footprint':
        import ast
        st = Stats()
        prog = ast.literal_eval(case['prog'])
        sm = {n: stack_sweep(st, case['src'], prog, [n, case['x']], case['W'], case['tag'], above=2) for n in NS}
        msgs = [v['msg'] for v in st.get('viol', [])]
        if len(set(v for v in sm.values() if v is not None)) > 1:
            msgs.append(f'footprint depends on iterations: {sm}')
        return msgs
    return replay_conformance(case)
