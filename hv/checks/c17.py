"""C17 -- the write family prints canonically for every value and never disturbs the caller.
Value coverage: write(int) on every 16-bit value (thorough) or boundary windows (quick) at W=2
and boundary sets at W in 3,4,8; write(byte)/write(bool) on all values; write(string) and the
byte-array overloads for every length 0..64 from four storage classes.  Non-interference:
the caller holds scalars, one array of each element type and a VLA, all dumped after the
calls; those programs are swept over every stack size up to S_min+4 with the memory monitor on."""
from ..cases import Stats, compile_case, run_impl, stack_sweep, replay_sweep, std_coverage
from ..ref.parser import parse_program
from .. import svm

LEVEL = 'model_checking'

INT_LOOP = """
empty @is_you(int lo, int n) {
    int i = lo;
    for (int k = 0; k < n; k += 1) { write(i); write(' '); writeln(i); i += 1; }
}
"""
INT_LIST = """
empty @is_you(const int[] xs) {
    for (int k = 0; k < xs.length; k += 1) { write(xs[k]); write(' '); writeln(xs[k]); }
}
"""
BYTE_BOOL = """
empty @is_you() {
    for (int i = 0; i < 256; i += 1) { write(i is byte); }
    writeln();
    writeln('q'); write(true); write(false); writeln(true); writeln(false); writeln();
    for (int i = -2; i < 3; i += 1) { write(i is bool); write(' '); writeln(i == 0); }
}
"""
STR_PROGS = {
    'string': """
empty @is_you(string s) {
    write(s); write('|'); writeln(s); write(s is byte[]); write('|'); const byte[] v = s is byte[]; writeln(v);
    writeln(s.length); writeln(v.length);
}""",
    'state_bytes': """
empty @is_you(byte[] m) { write(m); write('|'); writeln(m); writeln(m.length); }""",
    'const_bytes': """
empty @is_you(const byte[] c) { write(c); write('|'); writeln(c); writeln(c.length); }""",
    'stack_bytes': """
empty show(const byte[] c) { write(c); write('|'); }
empty @is_you(const byte[] c) {
    byte l[c.length]; for (int i = 0; i < c.length; i += 1) { l[i] = c[i]; }
    write(l); write('|'); writeln(l); show(l); const byte[] k = ['o', 'k']; show(k); writeln(k); writeln(l.length);
}""",
}

BIG_BYTES = """
byte G[300];
empty show(const byte[] v) { write(v); write('|'); writeln(v.length); }
empty @is_you(int n) {
    byte row[n]; for (int i = 0; i < n; i += 1) { row[i] = (97 + i % 26) is byte; }
    writeln(row); writeln(row.length);
    for (int i = 0; i < 300; i += 1) { G[i] = (97 + i % 26) is byte; }
    writeln(G); writeln(G.length); show(row);
}
"""

# writes that are later undone, or that precede defeat in a try: what is printed must be exactly the committed text
UNDONE = """
empty !maybe(int k) { write("in "); write(k); !truth_is_defeat(k > 1); write(" ok "); }
empty @is_you(int n, string s) {
    try { write("> try "); write(s); write(s is byte[]); write(n); write(n > 0); write('c'); !is_defeat(); } undo { writeln("> undo"); }
    try { write("A"); write(s); !truth_is_defeat(n == 1); writeln(" kept"); } undo { writeln("B"); }
    try { write("C "); write(s is byte[]); writeln(n - 5); !truth_is_defeat(n == 2); } stop { writeln(" stopped"); }
    for (int k = 0; k < 4; k += 1) { try { !maybe(k); writeln(s); } undo { write("skip "); writeln(k); } }
    byte[] m = ['m', 'u', 't']; try { write(m); preempt { writeln(" pre"); return; } write(" post"); !truth_is_defeat(n == 0); writeln(m); } undo { writeln("never"); }
    writeln(s.length);
}
"""

NONINT = """
empty dump(int s1, byte s2, bool s3, const int[] ai, const byte[] ab, const bool[] ao, const string[] as, const int[] vl) {
    write(s1); write(s2); write(s3); write(ai[0]); write(ai[1]); write(ab); write(ao[0]); write(ao[1]); write(ao[2]);
    write(as[0]); write(as[1]); for (int i = 0; i < vl.length; i += 1) { write(vl[i]); } writeln();
}
empty @is_you(const int[] xs) {
    int s1 = 11; byte s2 = 'k'; bool s3 = true;
    int[] ai = [101, 102]; byte[] ab = ['x', 'y']; bool[] ao = [true, false, true]; string[] as = ["p", "q"];
    int vl[xs.length + 1]; for (int i = 0; i < vl.length; i += 1) { vl[i] = 7 + i; }
    for (int k = 0; k < xs.length; k += 1) {
        write(xs[k]); write(' '); writeln(xs[k]);
        dump(s1, s2, s3, ai, ab, ao, as, vl);
    }
    write(s3); writeln(not s3); write(s2); writeln(s2); write("lit"); writeln("lit"); write(ab); writeln(ab);
    dump(s1, s2, s3, ai, ab, ao, as, vl);
}
"""

# programs in which the write call itself is the deepest use of the caller's frame, with a canary array
# allocated last (adjacent to the free stack)
TIGHT = {
    'int': """
empty @is_you(const int[] xs) {
    int[] a = [11111, 22222, 12345];
    for (int k = 0; k < xs.length; k += 1) { writeln(xs[k]); }
    writeln(a[0]); writeln(a[1]); writeln(a[2]);
}""",
    'int_bytes': """
empty @is_you(const int[] xs) {
    byte[] a = ['c', 'a', 'n', 'a', 'r', 'y', '!', '?'];
    for (int k = 0; k < xs.length; k += 1) { write(xs[k]); }
    writeln(); writeln(a);
}""",
    'bool': """
empty @is_you(const int[] xs) {
    bool[] a = [true, false, true, true, false, false, true, false, true];
    for (int k = 0; k < xs.length; k += 1) { write(xs[k] > 0); }
    for (int k = 0; k < a.length; k += 1) { write(a[k]); }
}""",
    'string': """
empty @is_you(const int[] xs) {
    int n[xs.length]; for (int k = 0; k < xs.length; k += 1) { n[k] = xs[k]; }
    string s = "text"; write(s); writeln(s); write(s is byte[]);
    for (int k = 0; k < n.length; k += 1) { write(n[k] is byte); }
}""",
}


def int_boundaries(W):
    bits = 8 * W
    mx = (1 << (bits - 1)) - 1
    s = {0, mx, -mx - 1, mx - 1, -mx}
    k = 1
    while k <= mx:
        for d in (-1, 0, 1):
            for v in (k + d, -k + d):
                if -mx - 1 <= v <= mx:
                    s.add(v)
        k *= 10
    k = 1
    while k <= mx:
        for d in (-1, 0, 1):
            for v in (k + d, -k + d):
                if -mx - 1 <= v <= mx:
                    s.add(v)
        k *= 2
    step = max(1, (2 * mx) // 509)
    v = -mx - 1
    while v <= mx:
        s.add(v)
        v += step
    return sorted(s)


def wide_windows(W, n):
    bits = 8 * W
    mx = (1 << (bits - 1)) - 1
    centres = {0, mx - n // 2 + 1, -mx - 1 + n // 2}
    for base in (10, 2):
        k = base
        while k <= mx:
            centres.update((k, -k))
            k *= base
    los = set()
    for c in centres:
        lo = max(-mx - 1, min(c - n // 2, mx - n + 1))
        los.add(lo)
    # drop windows that are wholly contained in the union of earlier ones only when identical; overlaps are harmless
    return sorted(los)


def strings():
    out = []
    for n in range(0, 65):
        out.append(''.join(chr(33 + (7 * i + n) % 90) for i in range(n)))
    out += ['é', 'aé', '€ÿ', ' lead', 'trail ', '\t\x01\x7f']
    return out


def items(tier):
    out = []
    i = 0
    if tier == 'thorough':
        for lo in range(-32768, 32768, 2048):
            out.append((i, 'loop', lo, 2048))
            i += 1
    else:
        for lo in (-32768, -10010, -1010, -138, -10, 118, 246, 990, 9990, 32736):
            out.append((i, 'loop', lo, 32 if lo + 32 <= 32768 else 32768 - lo))
            i += 1
    if tier == 'thorough':
        # wider words: a window of 1024 consecutive values centred on every +-10^k and +-2^k, on the extremes and on zero
        for W in (3, 4, 8):
            for lo in wide_windows(W, 1024):
                out.append((i, 'wloop', W, lo, 1024))
                i += 1
    for W in (2, 3, 4, 8):
        vals = int_boundaries(W)
        for c in range(0, len(vals), 128):
            out.append((i, 'list', W, vals[c:c + 128]))
            i += 1
    out.append((i, 'bytebool'))
    i += 1
    for n in ((255, 256, 257, 300, 511, 512, 513, 1000) if tier == 'thorough' else (255, 256, 257, 300, 513)):
        out.append((i, 'bigbytes', n))
        i += 1
    out.append((i, 'undone'))
    i += 1
    for kind in STR_PROGS:
        ss = strings()
        for c in range(0, len(ss), 12):
            out.append((i, 'str', kind, ss[c:c + 12]))
            i += 1
    for W in ((2, 3, 4, 8) if tier == 'thorough' else (2, 3)):
        bits = 8 * W
        mn = -(1 << (bits - 1))
        for xs in ([mn], [0], [-1, 7], [mn, -mn - 1, 10], []):
            out.append((i, 'nonint', W, xs))
            i += 1
            for tk in TIGHT:
                out.append((i, 'tight', W, tk, xs))
                i += 1
    return out


def _expect_ints(vals):
    return ''.join(f'{v} {v}\n' for v in vals).encode()


def _run_expect(st, src, argv, W, exp, what, case, max_steps=30_000_000, n=1, S=64):
    lines, err = compile_case(src, W, S)
    st.add('evaluations', n)
    if err:
        st.viol(f'{what}: not compiled: {err}', case)
        return
    r, err = run_impl(src, argv, W, S, lines=lines, max_steps=max_steps, mon=svm.Monitor(scope=False) if n < 200 else None)
    if err:
        st.viol(f'{what}: {err}', case)
        return
    st.vm(r)
    st.count('dims', f'W{W}')
    if r.outcome != 'loop' or r.flags != ['win'] or r.output != exp:
        got = r.output.split(b'\n')
        want = exp.split(b'\n')
        k = next((j for j in range(min(len(got), len(want))) if got[j] != want[j]), min(len(got), len(want)))
        st.viol(f'{what}: line {k}: expected {want[k] if k < len(want) else None!r} observed {got[k] if k < len(got) else None!r} '
                f'({r.outcome} flags={r.flags} {r.trap or ""})', case)
        return
    if r.violations:
        st.viol(f'{what}: monitor: {r.violations[0]["msg"]}', case)
        return
    st.add('traces_validated_against_impl')
    st.add('values', n)


def run_item(item, tier):
    st = Stats()
    kind = item[1]
    case = {'item': list(item), 'tier': tier}
    if kind == 'loop':
        _, _, lo, n = item
        vals = []
        v = lo
        for _ in range(n):
            vals.append(v)
            v = v + 1 if v < 32767 else -32768
        _run_expect(st, INT_LOOP, [str(lo), str(n)], 2, _expect_ints(vals), f'write(int) for {lo}..{lo + n - 1} at W=2', case, n=n)
        st.sample({'write_int_range': [lo, lo + n - 1], 'W': 2})
    elif kind == 'wloop':
        _, _, W, lo, n = item
        vals = list(range(lo, lo + n))
        _run_expect(st, INT_LOOP, [str(lo), str(n)], W, _expect_ints(vals), f'write(int) for {lo}..{lo + n - 1} at W={W}', case, n=n)
        st.count('dims', f'wide_W{W}')
    elif kind == 'list':
        _, _, W, vals = item
        _run_expect(st, INT_LIST, [str(v) for v in vals], W, _expect_ints(vals), f'write(int) boundary values at W={W}', case, n=len(vals))
        st.sample({'write_int_values': vals[:6], 'W': W})
    elif kind == 'bytebool':
        exp = bytes(range(256)) + b'\nq\ntruefalsetrue\nfalse\n\n' + b''.join(
            (b'true ' if i else b'false ') + (b'true\n' if i == 0 else b'false\n') for i in range(-2, 3))
        for W in (2, 3, 4):
            _run_expect(st, BYTE_BOOL, [], W, exp, f'write(byte)/write(bool) at W={W}', case, n=256)
    elif kind == 'bigbytes':
        n = item[2]
        data = bytes(97 + k % 26 for k in range(n))
        g300 = bytes(97 + k % 26 for k in range(300))
        exp = data + b'\n' + str(n).encode() + b'\n' + g300 + b'\n300\n' + data + b'|' + str(n).encode() + b'\n'
        for W in (2, 3):
            _run_expect(st, BIG_BYTES, [str(n)], W, exp, f'write of byte arrays of {n} elements (stack array, global array, through a parameter) at W={W}', case, S=700)
        st.sample({'write_byte_array_lengths': [n, 300]})
    elif kind == 'undone':
        from ..cases import run_program
        run_program(st, UNDONE, [[str(n), t] for n in (0, 1, 2, 3) for t in ('', 'x', 'text with spaces', 'é')], [2, 4], 'writes inside tries that are undone or stopped')
    elif kind == 'str':
        _, _, sk, ss = item
        src = STR_PROGS[sk]
        for s in ss:
            b = s.encode('utf-8')
            n = str(len(b)).encode()
            if sk == 'string':
                exp = b + b'|' + b + b'\n' + b + b'|' + b + b'\n' + n + b'\n' + n + b'\n'
                argv = [s]
            else:
                argv = [str(x) for x in b]
                if sk == 'stack_bytes':
                    exp = b + b'|' + b + b'\n' + b + b'|ok|ok\n' + n + b'\n'
                else:
                    exp = b + b'|' + b + b'\n' + n + b'\n'
            for W in (2, 4):
                _run_expect(st, src, argv, W, exp, f'write({sk}) of {len(b)} bytes at W={W}', case)
        st.sample({'write_bytes_from': sk, 'lengths': [len(s.encode()) for s in ss]})
    elif kind == 'nonint':
        _, _, W, xs = item
        prog = parse_program(NONINT)
        stack_sweep(st, NONINT, prog, [str(x) for x in xs], W, f'write family with live caller state xs={xs}', above=4)
        st.sample({'noninterference_sweep': xs, 'W': W})
    elif kind == 'tight':
        _, _, W, tk, xs = item
        prog = parse_program(TIGHT[tk])
        argv = [str(x if tk != 'string' else x % 256) for x in xs]
        stack_sweep(st, TIGHT[tk], prog, argv, W, f'write({tk}) as the deepest call next to a live array, xs={xs}', above=4)
    return st


def coverage(total, tier):
    cov = std_coverage(total, {
        'write(int), wider words': ('1024 consecutive values around every +-10^k, +-2^k, 0, min and max at W in 3,4,8' if tier == 'thorough' else 'thorough tier only'),
        'write(int)': ('all 65536 values' if tier == 'thorough' else '10 windows of 32 values at the digit-count and sign boundaries')
                      + ' at W=2; +-10^k+-1, +-2^k+-1, min, max and a 509-step stride at W in 2,3,4,8',
        'write(byte), write(bool)': 'all 256 bytes; both booleans; bool derived from -2..2; W in 2,3,4',
        'write(long byte arrays)': 'state byte arrays (stack, global, through a const parameter) of ' + ('255, 256, 257, 300, 511, 512, 513, 1000' if tier == 'thorough' else '255, 256, 257, 300, 513') + ' elements, W 2,3',
        'write(string / byte arrays)': 'every length 0..64 plus non-ASCII/control samples, from a string, a state argv array, a const '
                                        'argv array, a stack VLA and a const local, W in 2,4',
        'undone writes': 'every write overload inside try/undo and try/stop bodies that end in defeat, in a loop of tries through a defeat function, and before a preempt return; '
                         'n in 0..3 x 4 strings; committed output compared with the reference interpreter',
        'non-interference': 'caller holding 3 scalars, int/byte/bool/string arrays and a VLA, dumped after every call, at every stack '
                            'size from 1 word to S_min+4 (below S_min: must be a clean stack_overflow) with the C04 monitor on; '
                            'arguments incl. the most negative integer; W in ' + ('2,3,4,8' if tier == 'thorough' else '2,3'),
    })
    cov['values_printed'] = total.get('values', 0)
    cov['sweeps'] = total.get('sweeps', 0)
    cov['overflow_runs'] = total.get('overflow_runs', 0)
    cov['smin'] = total.get('smin', {})
    return cov


def vacuity(total, tier):
    if not total.get('sweeps') and not total.get('viol'):
        return 'no stack sweep completed'
    return None


def replay(case):
    if case.get('kind') == 'sweep':
        return replay_sweep(case)
    if case.get('kind') == 'conformance':
        from ..cases import replay_conformance
        return replay_conformance(case)
    st = run_item(tuple(case['item']), case['tier'])
    return [v['msg'] for v in st.get('viol', [])]
