"""C18 -- builds are reproducible and options do not change meaning.
(a) every seed program is compiled in separate processes under PYTHONHASHSEED 0..15 (thorough:
0..63 and 'random') and twice within one process: the assembly must be byte-identical;
(b) stack monotonicity: full stack sweeps -- once a run completes at S_min it must behave
identically at every larger size up to S_min+8 and at 256 and 1024 words;
(c) word-size monotonicity: whenever the reference run at 16 bits never wraps a value, the
traces at word sizes 2, 3, 4 and 8 bytes must all be equal;
(d) --lint either rejects a program with a compiler diagnostic or leaves its assembly unchanged."""
import hashlib
import json
import os
import subprocess
import sys

from ..cases import Stats, compile_case, run_impl, ref_trace, stack_sweep, replay_sweep, std_coverage, describe
from ..gen import seq
from ..ref.parser import parse_program
from .. import hid, svm
from . import c12, c08, c16

LEVEL = 'model_checking'

CHILD = r'''
import sys, json, hashlib
sys.path.insert(0, %r)
from hv import hid
progs = json.load(sys.stdin)
order = %d
# the ORDER in which the (program, configuration) pairs are compiled in this process differs from the parent's, so that
# anything one compilation leaves behind for the next (a module-level memo, a class attribute) shows as a difference
configs = [(u, W) for u in (False, True) for W in (2, 4)]
todo = [(i, j) for i in range(len(progs)) for j in range(4)]
if order %% 4 == 1:
    todo = [(i, j) for i in range(len(progs)) for j in (3, 2, 1, 0)]
elif order %% 4 == 2:
    todo = [(i, j) for j in (1, 0, 3, 2) for i in reversed(range(len(progs)))]
elif order %% 4 == 3:
    todo = [(i, j) for i in reversed(range(len(progs))) for j in (2, 0, 3, 1)]
out = [[None] * 4 for _ in progs]
for n, (i, j) in enumerate(todo):
    u, W = configs[j]
    if order %% 4 == 3 and n %% 2 == 0:
        try:
            hid.compile_lines(progs[i][1], (3, 8)[n // 2 %% 2], 64, not u)       # an unrelated configuration in between
        except Exception:
            pass
    try:
        lines = hid.compile_lines(progs[i][1], W, 64, u)
        out[i][j] = hashlib.sha256(b"\n".join(lines)).hexdigest()
    except Exception as e:
        out[i][j] = "ERR " + type(e).__name__
json.dump(out, sys.stdout)
'''


COLD = r'''
import sys, hashlib
sys.path.insert(0, %r)
from hv import hid
src = sys.stdin.read()
try:
    print(hashlib.sha256(b"\n".join(hid.compile_lines(src, int(sys.argv[1]), 64, sys.argv[2] == "1"))).hexdigest())
except Exception as e:
    print("ERR " + type(e).__name__)
'''


def digest_cold(src, W, unchecked):
    """One compilation in a process of its own: nothing was compiled before it."""
    env = dict(os.environ)
    env['PYTHONHASHSEED'] = '0'
    env['PYTHONPATH'] = os.path.dirname(os.path.dirname(os.path.dirname(os.path.abspath(__file__))))
    p = subprocess.run([sys.executable, '-c', COLD % env['PYTHONPATH'], str(W), '1' if unchecked else '0'], input=src.encode(), env=env,
                       stdout=subprocess.PIPE, stderr=subprocess.PIPE, timeout=600)
    if p.returncode != 0:
        raise RuntimeError(f'child compiler process failed: {p.stderr.decode()[-500:]}')
    return p.stdout.decode().strip()


def _cold(st, sd):
    """Every (program, configuration) compiled alone in a fresh process must equal what this long-lived process, which has
    compiled many other things before and in between, produces for it."""
    for name, src in sd:
        for W in (2, 3, 4):
            for unchecked in (False, True):
                st.add('evaluations')
                try:
                    here = hashlib.sha256(b'\n'.join(hid.compile_lines(src, W, 64, unchecked))).hexdigest()
                except Exception as e:
                    here = 'ERR ' + type(e).__name__
                cold = digest_cold(src, W, unchecked)
                if here != cold:
                    st.viol(f'{name}: W={W} unchecked={unchecked}: a process that compiled other programs / configurations before produces different assembly than a fresh process',
                            {'kind': 'cold', 'seed_name': name})
                else:
                    st.add('identical_builds')


def digests_in_child(progs, hashseed):
    env = dict(os.environ)
    env['PYTHONHASHSEED'] = str(hashseed)
    env['PYTHONPATH'] = os.path.dirname(os.path.dirname(os.path.dirname(os.path.abspath(__file__))))
    order = hashseed if isinstance(hashseed, int) else 3
    p = subprocess.run([sys.executable, '-c', CHILD % (env['PYTHONPATH'], order)], input=json.dumps(progs).encode(), env=env,
                       stdout=subprocess.PIPE, stderr=subprocess.PIPE, timeout=600)
    if p.returncode != 0:
        raise RuntimeError(f'child compiler process failed: {p.stderr.decode()[-500:]}')
    return json.loads(p.stdout)


# programs aimed at every place where the compiler iterates over a collection whose order could depend on hashing:
# element types of array literals, overload tables, string/label/function tables, global materialisation order
HASH_PROGRAMS = [
    ('mixed_literals', """
empty o(const int[] a) { write("ints"); write(a[0]); }
empty o(const byte[] a) { write("bytes"); write(a[0]); }
empty o(const bool[] a) { write("bools"); }
empty o(const string[] a) { write("strings"); }
empty @is_you(int n, byte b) {
    write([66, b][0]); write([b, 66][0]); write([n, b][1]); write(['a', 1, 2][0]); write([1, 'a', b][2]);
    o([66, b]); o([b, 66]); o([1, 2]); o(['x', 'y']); o([b]); o([n, b]); o([true, n > 1]); o(["s", "t"]); o([1, 'c']);
    const byte[] x = [66, b]; const int[] y = [66, b]; write(x[0]); write(y[0]);
    writeln([b, 1, 'c', 300 - 45].length);
}
"""),
    ('wrapping_constants', """
const int K = 200; const int M = 1000; const int H = 256; const byte Y = 200;
int g = 200 * 200; int[] tab = [300 * 300, 65536 / 3, 32767 + 1, 70000 % 9];
empty @is_you(int n) {
    writeln(200 * 200); writeln(K * K); writeln(M * M); writeln(H * H); writeln(H * H * H); writeln(32767 + 1); writeln(-32768 - 1); writeln(65535 + n);
    writeln(8388607 + 1); writeln(4096 * 4096); writeln(2147483647 + 1); writeln(65536 * 65536); writeln(100000 / 7); writeln(70000 % 9); writeln(40000 > 0);
    writeln(g); writeln(tab[0] + tab[1] + tab[2] + tab[3]); writeln((Y + Y) is int); writeln((300 is byte) is int); writeln(n + 200 * 200); writeln(K * K == 40000);
}
"""),
    ('many_tables', """
int g1 = 1; int g2 = 2; byte g3 = 'c'; bool g4 = true; string g5 = "five"; const int[] g6 = [6, 7]; int[] g7 = [8]; string[] g8 = ["a", "b", "c"];
int f1(int x) { return x + g2; } int f2(int x) { return f3(x) + g1; } int f3(int x) { return x * 2; }
byte f4(byte x) { return x; } bool f5(bool x) { return not x; } string f6(string s) { return s; }
empty w(int x) { write(x); } empty w(byte x) { write(x); } empty w(bool x) { write(x); } empty w(string x) { write(x); } empty w(const int[] x) { write(x.length); }
empty @is_you() {
    w(g5); w("zeta"); w("alpha"); w("five"); w(f6("omega")); w(g8[1]); w(g8[2]); w(g8[0]);
    w(f2(g7[0])); w(f1(g6[1])); w(f4(g3)); w(f5(g4)); w(g6); w(g7); w([1, 2, 3]);
    if (g4 and f5(false)) { w("beta"); } else { w("gamma"); }
    for (int i = 0; i < 2; i += 1) { while (g1 < 3) { g1 += 1; if (g1 == 2) { continue; } w("delta"); } }
}
"""),
]


def seeds():
    return [[n, s] for n, s in c12.layout_seeds()] + [[n, s] for n, s in HASH_PROGRAMS]


def items(tier):
    out = []
    i = 0
    hs = list(range(16)) if tier == 'quick' else list(range(64)) + ['random', 'random']
    for h in hs:
        out.append((i, 'repro', h))
        i += 1
    for lo in range(0, len(seeds()), 4):
        out.append((i, 'cold', lo, lo + 4))
        i += 1
    # (b) sweeps
    nS = len(seq.family_S('quick'))
    for k in range(0, nS, 9 if tier == 'quick' else 3):
        out.append((i, 'sweepS', k))
        i += 1
    for k in range(len(seq.F_PROGRAMS)):
        out.append((i, 'sweepF', k))
        i += 1
    xprogs = c08.programs()
    nX = len(xprogs)
    picked = set(range(5, nX, 29 if tier == 'quick' else 7))
    # every scope kind with a dynamically sized array (the room check of dynamic arrays depends on the stack size), chosen by
    # what the program contains, not by its position in the list
    picked |= {k for k, (key, _) in enumerate(xprogs) if key[1] in ('vla', 'vla_nested') and key[2] in ('fall', 'ret')}
    for k in sorted(picked):
        out.append((i, 'sweepX', k))
        i += 1
    # (c) word sizes
    nE = len(seq.family_E('quick'))
    for k in range(0, nE, 8 if tier == 'quick' else 2):
        out.append((i, 'wsE', k))
        i += 1
    for k in range(0, nS, 5 if tier == 'quick' else 2):
        out.append((i, 'wsS', k))
        i += 1
    for k in range(len(seq.F_PROGRAMS)):
        out.append((i, 'wsF', k))
        i += 1
    # (d) lint
    for k in range(0, nS, 6 if tier == 'quick' else 1):
        out.append((i, 'lintS', k))
        i += 1
    out.append((i, 'lintSeeds'))
    i += 1
    out.append((i, 'lintConst'))
    i += 1
    for k in range(len(BIG_PROGRAMS)):
        out.append((i, 'bigstack', k))
        i += 1
    for fl in ('plain', 'you', 'defeat'):
        nb = len(lint_bodies(fl, tier))
        for lo in range(0, nb, 150):
            out.append((i, 'lintB', fl, lo, lo + 150))
            i += 1
    return out


# programs run with the stack at its legal maximum (addresses beyond 2^(n-1)): globals and argv data then sit at the top of memory
BIG_PROGRAMS = [
    ('byte[] GB = [\'g\', \'l\', \'o\', \'b\'];\nint[] GI = [5, 6, 7];\nbool[] GO = [true, false, true];\nstring[] GS = ["s", "t"];\n'
     'empty @is_you(byte[] m) { write(GB); write(m); GB[3] = m[0]; m[1] = GB[0]; writeln(GB); writeln(m); write(GI[2]); write(GO[2]); write(GS[1]); '
     'for (int i = 0; i < m.length; i += 1) { write(m[i]); } int[] loc = [1, 2, 3]; byte v[m.length]; v[0] = \'v\'; write(v[0]); writeln(loc[2] + GI[0]); }', ['72', '105', '33']),
    ('int g = 3;\nint[] GA = [1, 2, 3, 4];\nint sum(const int[] a) { int t = 0; for (int i = 0; i < a.length; i += 1) { t += a[i]; } return t; }\n'
     'empty @is_you(int[] xs) { writeln(sum(xs)); writeln(sum(GA)); GA[3] = xs[0]; xs[1] = g; writeln(sum(GA) + sum(xs)); try { !truth_is_defeat(xs[0] == 7); writeln("t"); } stop { writeln("s"); } }',
     ['7', '8', '9']),
]


def max_stack(W):
    return ((1 << (8 * W - 1)) - 1) // W - 5


class _Plain(c16.Printer):
    """Bodies of family B printed WITHOUT the per-statement markers: the statement a linter objects to is then the
    generated statement itself (a closing return, a break ...), not a marker."""

    def mark(self):
        self.n += 1
        return ''


_LB = {}


def lint_bodies(fl, tier):
    key = (fl, tier)
    if key not in _LB:
        _LB[key] = c16.all_bodies(fl, 3 if tier == 'quick' else 4, 1 if tier == 'quick' else 3)
    return _LB[key]


def lint_source(body, fl):
    p = _Plain(True)
    text = p.seq(body)
    name = {'plain': 'fut', 'you': '@fut', 'defeat': '!fut'}[fl]
    use = f'try {{ write({name}(x)); }} undo {{ }}' if fl == 'defeat' else f'write({name}(x));'
    return c16.PRE + f'int {name}(int x) {{ int y = 0; {text} return 3; }}\nempty @is_you(int x) {{ {use} }}\n'


_BASE = None


def base_digests():
    """Digests computed in this process, twice (in-process repeatability)."""
    global _BASE
    if _BASE is None:
        rows = []
        for name, src in seeds():
            row = []
            for unchecked in (False, True):
                for W in (2, 4):
                    d = []
                    for _ in range(2):
                        try:
                            d.append(hashlib.sha256(b'\n'.join(hid.compile_lines(src, W, 64, unchecked))).hexdigest())
                        except Exception as e:
                            d.append('ERR ' + type(e).__name__)
                    row.append(d)
            rows.append(row)
        _BASE = rows
    return _BASE


def run_item(item, tier):
    st = Stats()
    kind = item[1]
    st.count('family_items', kind)
    if kind == 'repro':
        h = item[2]
        sd = seeds()
        base = base_digests()
        got = digests_in_child(sd, h)
        for (name, src), brow, grow in zip(sd, base, got):
            for j, (b2, g) in enumerate(zip(brow, grow)):
                st.add('evaluations')
                case = {'kind': 'repro', 'seed_name': name, 'hashseed': h, 'config': j}
                if b2[0] != b2[1]:
                    st.viol(f'{name}: two compilations in one process differ (config {j})', case)
                elif g != b2[0]:
                    st.viol(f'{name}: output under PYTHONHASHSEED={h} differs from the parent process (config {j}: unchecked={j >= 2}, W={(2, 4)[j % 2]})', case)
                else:
                    st.add('identical_builds')
        st.sample({'reproducibility': f'PYTHONHASHSEED={h}', 'programs': len(sd), 'configs': 'checked/unchecked x W 2,4'})
    elif kind == 'cold':
        base_digests()          # this process has compiled every seed program at two word sizes first
        _cold(st, seeds()[item[2]:item[3]])
        st.sample({'reproducibility': 'fresh process per compilation', 'programs': [n for n, _ in seeds()[item[2]:item[3]]]})
    elif kind.startswith('sweep'):
        if kind == 'sweepS':
            src = seq.build_S(seq.family_S('quick')[item[2]][1])
            argvs = seq.S_ARGVS[:2]
        elif kind == 'sweepF':
            src, argvs = seq.F_PROGRAMS[item[2]]
            argvs = argvs[-1:]
        else:
            key, src = c08.programs()[item[2]]
            if key[0] in ('tryundo', 'preempt', 'undohandler'):
                return st
            argvs = [['3', '2']]
        prog = parse_program(src)
        for argv in argvs:
            for W in ((2, 4) if tier == 'thorough' else (2,)):
                stack_sweep(st, src, prog, argv, W, f'{kind}[{item[2]}]', above=8)
                st.add('cases')
        st.sample({'stack_sweep_of': kind, 'index': item[2], 'argv': argvs[0]})
    elif kind.startswith('ws'):
        if kind == 'wsE':
            src = seq.build_E(seq.family_E('quick')[item[2]][1])
            argvs = seq.E_ARGVS
        elif kind == 'wsS':
            src = seq.build_S(seq.family_S('quick')[item[2]][1])
            argvs = seq.S_ARGVS
        else:
            src, argvs = seq.F_PROGRAMS[item[2]]
        prog = parse_program(src)
        compiled = {}
        for W in (2, 3, 4, 8):
            compiled[W] = compile_case(src, W)
        for argv in argvs:
            word_sizes(st, src, prog, argv, compiled, f'{kind}[{item[2]}]')
        st.sample({'word_size_family': kind, 'index': item[2]})
    elif kind == 'lintS':
        src = seq.build_S(seq.family_S('quick')[item[2]][1])
        lint(st, f'S[{item[2]}]', src)
    elif kind == 'bigstack':
        src, argv = BIG_PROGRAMS[item[2]]
        prog = parse_program(src)
        W = 2
        ref = ref_trace(prog, argv, W)
        for S in list(range(max_stack(W) - 12, max_stack(W) + 1)) + [max_stack(W) // 2, max_stack(W) // 2 + 1]:
            case = {'kind': 'bigstack', 'k': item[2], 'S': S}
            st.add('evaluations')
            r, err = run_impl(src, argv, W, S, mon=svm.Monitor(scope=False))
            if err:
                st.viol(f'bigstack[{item[2]}]: stack size {S} (the legal maximum is {max_stack(W)}): {err}', case)
                continue
            st.vm(r)
            if r.outcome != 'loop' or r.trace != ref[1]:
                st.viol(f'bigstack[{item[2]}]: with a stack of {S} words (legal maximum {max_stack(W)}) the run differs from the reference: {describe(r)[:200]}', case)
            elif r.violations:
                st.viol(f'bigstack[{item[2]}]: stack {S}: monitor {r.violations[0]["msg"]}', case)
            else:
                st.add('traces_validated_against_impl')
                st.add('big_stack_runs')
        lines, err = compile_case(src, W, max_stack(W) + 1)
        if not err:
            st.viol(f'bigstack[{item[2]}]: a stack one word above the documented limit is accepted', {'kind': 'bigstack', 'k': item[2], 'S': max_stack(W) + 1})
        st.sample({'stack_sizes_near_the_maximum': [max_stack(W) - 12, max_stack(W)], 'program': src[:120]})
    elif kind == 'lintB':
        _, _, fl, lo, hi = item
        for body in lint_bodies(fl, tier)[lo:hi]:
            lint(st, f'B[{fl}] without markers', lint_source(body, fl), must_compile=False)
        st.sample({'lint_twin_of_unmarked_body': lint_source(lint_bodies(fl, tier)[lo], fl).split('\n')[3]})
    elif kind == 'lintConst':
        for k, src in enumerate(lint_const_programs()):
            lint(st, f'constant-condition program {k}', src, must_compile=False)
        st.sample({'lint_twins_with_constant_conditions': len(lint_const_programs())})
    elif kind == 'lintSeeds':
        for name, src in seeds():
            lint(st, name, src)
    return st


def word_sizes(st, src, prog, argv, compiled, tag):
    case = {'kind': 'ws', 'src': src, 'prog': repr(prog), 'argv': list(argv), 'tag': tag}
    st.add('evaluations')
    ref = ref_trace(prog, argv, 2)
    if ref[0] != 'ok':
        st.add('inconclusive')
        return
    if ref[2].get('overflowed'):
        st.add('runs_with_16bit_wrap_skipped')
        return
    traces = {}
    for W, (lines, err) in compiled.items():
        if err:
            st.viol(f'{tag}: not compiled at W={W}: {err}', case)
            return
        r, e = run_impl(src, argv, W, lines=lines)
        if e:
            st.viol(f'{tag}: {e}', case)
            return
        st.vm(r)
        st.count('dims', f'W{W}')
        traces[W] = r
    base = traces[2]
    if base.outcome != 'loop' or base.trace != ref[1]:
        st.viol(f'{tag}: W=2 run differs from the reference: {describe(base)[:200]}', case)
        return
    for W in (3, 4, 8):
        t = traces[W].trace
        # the sleep argument of the terminal loop is the same constant at every width; traces compare directly
        if traces[W].outcome != 'loop' or t != base.trace:
            st.viol(f'{tag}: values fit 16 bits but the run at W={W} differs from W=2 (argv={argv}): {describe(traces[W])[:200]} vs {describe(base)[:200]}', case)
            return
    st.add('traces_validated_against_impl', 4)
    st.add('width_independent_runs')


def lint_const_programs():
    """Statements whose condition the compiler can decide: whatever it does with the dead part, it must do the same under --lint."""
    conds = ['true', 'false', 'DBG', 'not DBG', 'LIM == 3', 'LIM > 3', '1 < 2', '(LIM * 2) is bool', 'DBG and x > 0', 'DBG or x > 0', 'x > 0 and false', "'a' == 'b'", '"s" is bool', '"" is bool',
             '[1, 2].length == 2']
    dead = ["int a = x; int b = a + 1; int c = b * 2; int d = c - a; write(d); write(\"dead arm\");", "int[] t = [x, 2, 3]; write(t[1]); f(x);", "write('k');", "return;", "x += 1;"]
    out = []
    for c in conds:
        for k, d in enumerate(dead):
            for shape in ('if ({c}) {{ {d} }}', 'if ({c}) {{ {d} }} else {{ write(\'e\'); }}', 'if (x == 9) {{ write(\'n\'); }} else if ({c}) {{ {d} }} else {{ int q = x; write(q); }}',
                          'while ({c}) {{ {d} break; }}', 'for (int i = 0; {c} and i < 2; i += 1) {{ {d} }}', 'write(({c}) is int);', 'bool w = {c}; if (w) {{ {d} }}'):
                if (shape.startswith('write') or shape.startswith('bool')) and k:
                    continue
                out.append('const bool DBG = false; const int LIM = 3;\nint f(int v) { write(\'f\'); return v; }\nempty @is_you(int x) { write(\'<\'); '
                           + shape.format(c=c, d=d) + " write('>'); writeln(x); }\n")
    return out


def lint(st, name, src, must_compile=True):
    case = {'kind': 'lint', 'name': name, 'src': src, 'must_compile': must_compile}
    st.add('evaluations')
    a, ea = compile_case(src, 2, 64)
    b, eb = compile_case(src, 2, 64, lint=True)
    if ea:
        if must_compile or ea[0] != 'reject':
            st.viol(f'{name}: seed not compiled: {ea}', case)
        elif not eb:
            st.viol(f'{name}: rejected without --lint ({ea[1]}) but accepted with it', case)
        return
    if eb:
        if eb[0] == 'reject':       # any compiler diagnostic is a rejection; its class is not part of the property
            st.add('lint_rejected')
        else:
            st.viol(f'{name}: --lint failed with {eb}', case)
        return
    if a != b:
        st.viol(f'{name}: --lint changed the generated code', case)
        return
    st.add('lint_identical')


def coverage(total, tier):
    cov = std_coverage(total, {
        'reproducibility': f'{len(seeds())} seed programs (all examples and one program of every generated family) x checked/unchecked x W 2,4, compiled twice '
                           'in-process and in a fresh process per PYTHONHASHSEED (each child compiles the (program, configuration) pairs in one of four different orders, one of them with unrelated W=3/W=8 builds in between), '
                           'and every (program, W in 2,3,4, checked/unchecked) alone in a process of its own; hash seeds ' + ('0..15' if tier == 'quick' else '0..63 plus two random seeds')
                           + ' (bound on the hash-seed dimension: not all 2^32 seeds)',
        'stack_monotonicity': 'full sweeps (every size from 1 word to S_min+8, then 256 and 1024) of S batches, all F programs, every X program of C08 with a dynamic array left by falling through / returning, and every 29th (thorough: 7th) other X program',
        'maximum_stack': 'two programs using global and argv arrays of every element type at the 13 largest legal stack sizes and around half of it (W=2)',
        'word_size_monotonicity': 'E, S batches and F programs at W 2,3,4,8 on runs whose 16-bit reference execution never wraps a value',
        'lint': 'S batches, all seed programs and every body of family B (C16) up to size ' + ('3' if tier == 'quick' else '4 (every 3rd of size 4)') + ' printed without statement markers, and 15 compile-time-decidable conditions x 5 dead/live bodies x if / if-else / else-if / while / for / value / through a bool variable: a compiler diagnostic or byte-identical assembly',
    })
    for k in ('identical_builds', 'sweeps', 'width_independent_runs', 'runs_with_16bit_wrap_skipped', 'lint_identical', 'lint_rejected'):
        cov[k] = total.get(k, 0)
    return cov


def vacuity(total, tier):
    if total.get('viol'):
        return None
    for k in ('identical_builds', 'sweeps', 'width_independent_runs', 'lint_identical'):
        if not total.get(k):
            return f'{k} is zero'
    return None


def replay(case):
    st = Stats()
    k = case.get('kind')
    if k == 'sweep':
        return replay_sweep(case)
    if k == 'repro':
        sd = seeds()
        k_ = [s[0] for s in sd].index(case['seed_name'])
        got = digests_in_child(sd, case['hashseed'])            # the whole list: the order of compilations is part of the case
        cold = [digest_cold(sd[k_][1], W, unchecked) for unchecked in (False, True) for W in (2, 4)]
        return [] if got[k_] == cold else [f'{case["seed_name"]}: digests differ under PYTHONHASHSEED={case["hashseed"]} (compilation order {case["hashseed"] % 4 if isinstance(case["hashseed"], int) else 3})']
    if k == 'cold':
        st2 = Stats()
        _cold(st2, [s for s in seeds() if s[0] == case['seed_name']])
        return [v['msg'] for v in st2.get('viol', [])]
    if k == 'bigstack':
        st2 = run_item((0, 'bigstack', case['k']), 'quick')
        return [v['msg'] for v in st2.get('viol', [])]
    if k == 'ws':
        import ast
        src = case['src']
        compiled = {W: compile_case(src, W) for W in (2, 3, 4, 8)}
        word_sizes(st, src, ast.literal_eval(case['prog']), case['argv'], compiled, case['tag'])
    if k == 'lint':
        lint(st, case['name'], case['src'], case.get('must_compile', True))
    return [v['msg'] for v in st.get('viol', [])]
