"""C01 -- compiled code computes what the source says (sequential core).
Level: model_checking: every enumerated (program, input, word size) is executed on the
exploring VM (all speculative futures of every Turing jump explored and monitored) and its
committed trace is compared with the reference interpreter's trace."""
from ..cases import Stats, check_conformance, compile_case, replay_conformance
from ..gen import seq
from ..ref.parser import parse_program
from .. import hid

LEVEL = 'model_checking'


def items(tier):
    out = []
    out += seq.family_E(tier)
    out += seq.family_S(tier)
    out += seq.family_F(tier)
    out += seq.family_A(tier)
    out += seq.family_O(tier)
    from ..gen import chain
    n = len(chain.shadow_programs())
    out += [('N', tuple(range(k, min(k + 6, n)))) for k in range(0, n, 6)]
    return [(i,) + it for i, it in enumerate(out)]


def word_sizes(tier, idx):
    if tier == 'thorough':
        return [2, 3, 4, 8]
    return [2, (3, 4, 8)[idx % 3]]


def _run_prog(st, src, argvs, Ws, tag, S=hid.GEN_STACK):
    prog = parse_program(src)
    nviol = len(st.get('viol', []))
    for W in Ws:
        lines, err = compile_case(src, W, S)
        if err:
            st.add('evaluations')
            from ..cases import _must_be_well_typed
            _must_be_well_typed(prog, src)
            st.viol(f'{tag}: well-typed program not compiled: {err[0]}: {err[1]}',
                    {'kind': 'conformance', 'src': src, 'prog': repr(prog), 'argv': list(argvs[0]), 'W': W, 'S': S,
                     'unchecked': False, 'tag': tag})
            continue
        for argv in argvs:
            check_conformance(st, src, prog, argv, W, S, lines=lines, tag=tag)
            st.count('dims', f'W{W}')
    return len(st.get('viol', [])) > nviol


def run_item(item, tier):
    idx, fam, payload = item
    st = Stats()
    Ws = word_sizes(tier, idx)
    st.count('family_items', fam)
    if fam == 'E':
        src = seq.build_E(payload)
        st.add('cases', len(payload))
        if _run_prog(st, src, seq.E_ARGVS, Ws, f'E[{idx}]'):
            _minimise(st, payload, seq.build_E, seq.E_ARGVS, Ws, f'E[{idx}]')
        st.sample({'family': 'E', 'expr': payload[0][1], 'position': payload[0][2], 'argv': seq.E_ARGVS[1]})
    elif fam == 'S':
        src = seq.build_S(payload)
        st.add('cases', len(payload))
        if _run_prog(st, src, seq.S_ARGVS, Ws, f'S[{idx}]'):
            _minimise(st, payload, seq.build_S, seq.S_ARGVS, Ws, f'S[{idx}]')
        st.sample({'family': 'S', 'statements': [seq.S_ATOMS[i] for i in payload[-1]], 'argv': seq.S_ARGVS[1]})
    elif fam == 'F':
        src, argvs = seq.F_PROGRAMS[payload]
        st.add('cases', 1)
        _run_prog(st, src, argvs, [2, 3, 4, 8], f'F[{payload}]')
        if tier == 'thorough':
            _run_prog(st, src, argvs, [2, 4], f'F[{payload}]/bigstack', S=4 * hid.GEN_STACK)
    elif fam == 'N':
        from ..gen import chain
        from ..ref import types as rtypes
        from ..ref.parser import parse_program
        progs = chain.shadow_programs()
        for k in payload:
            tag, src = progs[k]
            try:
                rtypes.elaborate(parse_program(src))
            except (rtypes.Reject, rtypes.Unspecified):
                st.add('skipped_not_accepted_by_reference_typer')       # accept/reject is C07's business
                continue
            st.add('cases', 1)
            _run_prog(st, src, chain.SH_INPUTS, [2, (3, 4, 8)[idx % 3]], tag)
        st.sample({'family': 'N', 'program': progs[payload[0]][0]})
    elif fam == 'O':
        for order in payload:
            st.add('cases', 1)
            _run_prog(st, seq.build_O(order), seq.O_ARGVS, [2, (3, 4, 8)[idx % 3]] if len(order) > 2 else [2], f'O{list(order)}')
        st.sample({'family': 'O', 'call_order': [seq.O_FUNCS[i][0].split('(')[0] for i in payload[0]]})
    elif fam == 'A':
        for sig in payload:
            src = seq.build_A(sig)
            st.add('cases', 1)
            for W in Ws:
                _run_prog(st, src, seq.argvs_A(sig, W), [W], f'A{list(sig)}')
        st.sample({'family': 'A', 'signature': list(payload[0]), 'argv': seq.argvs_A(payload[0], 2)[-1]})
    return st


def _minimise(st, chunk, build, argvs, Ws, tag):
    """A batch failed: re-run each member alone and keep only the failing singles (if any fails alone)."""
    batch_viol = st.pop('viol')
    single = Stats()
    for k, c in enumerate(chunk):
        s1 = Stats()
        _run_prog(s1, build([c]), argvs, Ws, f'{tag}#{k}')
        if s1.get('viol'):
            single.setdefault('viol', []).extend(s1['viol'][:1])
    st['viol'] = single.get('viol') or batch_viol[:1]


def coverage(total, tier):
    cov = {k: total.get(k, 0) for k in ('states', 'transitions', 'traces_validated_against_impl', 'executions',
                                         'choice_points', 'rollbacks', 'max_choice_depth', 'cycles_closed',
                                         'speculative_halts', 'evaluations', 'cases', 'ref_replays', 'inconclusive')}
    cov['distinct_outcomes'] = total.get('outcomes', {})
    cov['dims'] = total.get('dims', {})
    cov['family_items'] = total.get('family_items', {})
    cov['monitor_points'] = total.get('monitor_points', {})
    cov['exhaustive'] = total.get('inconclusive', 0) == 0
    cov['bounds'] = {
        'N': 'one name with two meanings: a global v of 11 kinds (mutable / const with a literal / const with a folded initialiser / zero / 300; int, byte, bool, string, const and mutable arrays) shadowed by 12 binders '
             '(parameter, run-time local, literal local, const literal local, const run-time local, local of an inner block and of an if body, loop variable, array / string / byte parameter, bool local, the entry '
             'point\'s own parameter), used as value, operand, argument, assignment target and condition, with the global read before, between and after through a helper; programs the reference typer rejects are skipped and counted',
        'E': 'all typed expression trees of depth<=1 over the full alphabet (10 int, 6 byte, 5 bool leaves; - * + / % unary- '
             'is-casts < == >= and or not) and depth 2 (thorough: partial depth 3) over the reduced alphabet, each in '
             + ('every use position' if tier == 'thorough' else 'every use position for the leaves, 3 round-robin positions for deeper expressions') + ' of its type; inputs ' + str(seq.E_ARGVS),
        'S': f'all statement sequences of length<=2 over {len(seq.S_ATOMS)} atoms plus ' + ('all' if tier == 'thorough' else 'reduced-alphabet (10 atoms)')
             + ' sequences of length 3; inputs ' + str(seq.S_ARGVS),
        'F': f'{len(seq.F_PROGRAMS)} function-protocol programs (overloads, recursion, returns, RC/R/RW arrays, globals) at W in 2,3,4,8',
        'A': 'every @is_you signature with <=3 parameters over 8 types with <=1 array '
             + ('' if tier == 'thorough' else '(3-parameter signatures: every 7th) ') + 'x boundary argument vectors',
        'O': f'{len(seq.O_FUNCS)} functions with different frame shapes (parameter shadowing a global, byte/bool/string globals, literal and dynamic arrays, '
             'recursion, const-view/mutable/literal array arguments) called -- hence generated -- in every order of '
             + ('every 7th permutation of every 6-subset' if tier == 'thorough' else 'every 10th 4-subset') + ' plus all ordered pairs; the first two are called again at the end',
        'word_sizes': 'thorough: 2,3,4,8 for everything; quick: 2 plus one of 3,4,8 rotating per batch',
    }
    return cov


def vacuity(total, tier):
    if total.get('traces_validated_against_impl', 0) == 0:
        return 'no trace was validated'
    if total.get('monitor_points', {}).get('mem', 0) == 0:
        return 'monitor sampled nothing'
    return None


def replay(case):
    return replay_conformance(case)
