"""C05 -- runtime faults are detected exactly, first, and terminally.
Families IDX (index x length x element type x storage x access), DIV (division/modulo by
every boundary divisor on locals, globals and elements), LEN (dynamic array lengths),
NLP (return of preemptive defeat functions into unavoidable defeat: family P of C02).
Oracle: the reference interpreter raises the same faults from the source semantics; the
committed traces must be equal (fault flag then error, nothing after, earlier output
intact, no effect of the faulting store, and no fault flag when the condition is absent)."""
from ..cases import Stats, run_program, replay_conformance, std_coverage, check_conformance, compile_case, ref_trace
from ..gen import tt, chain
from ..ref.parser import parse_program
from .. import hid

LEVEL = 'model_checking'

NV = 40
EL = {
    'int': dict(vals=[str(11 * (k + 1)) for k in range(NV)], show='write({x});', newv='5', ops=['+', '-', '*', '/', '%']),
    'byte': dict(vals=["'" + chr(97 + k % 26) + "'" for k in range(NV)], show='write({x});', newv="'Z'", ops=['+', '-', '*', '/', '%']),
    'bool': dict(vals=[('true', 'false', 'true', 'true', 'false', 'false', 'true', 'false', 'true')[k % 9] for k in range(NV)], show='write({x});', newv='true', ops=[]),
    'string': dict(vals=[f'"s{k}"' for k in range(NV)], show='write({x});', newv='"NEW"', ops=[]),
}
LENS = [0, 1, 2, 7, 8, 9]
LENS_T = [0, 1, 2, 3, 7, 8, 9, 15, 16, 17, 31, 32, 33]
STORAGES = ['local_lit', 'local_vla', 'global_mut', 'global_const', 'param_mut', 'param_const_view', 'local_const']
ACCESS = ['read', 'store', 'inc', 'castidx']


def idx_values(L, W, tier='quick'):
    bits = 8 * W
    mx = (1 << (bits - 1)) - 1
    s = [-mx - 1, -2, -1, 0, 1, L - 1, L, L + 1, 255, 256, mx, 8, -8, 7]
    if tier == 'thorough':
        # every index from 10 below to 10 above the array, and the word/byte boundaries around it
        s = list(range(-10, L + 11)) + [-mx - 1, -mx, mx - 1, mx, 255, 256, 257, 256 + L, 256 + L - 1, -256, -256 + L, 65535 & mx, (1 << bits - 2), -(1 << bits - 2)]
    out = []
    for v in s:
        if v not in out and -mx - 1 <= v <= mx:
            out.append(v)
    return out


def idx_program(el, storage, L, access):
    """Returns source or None when the combination is not expressible / not well-typed."""
    info = EL[el]
    vals = info['vals'][:L]
    lit = '[' + ', '.join(vals) + ']'
    const = storage in ('global_const', 'param_const_view', 'local_const')
    if const and access not in ('read', 'castidx'):
        return None
    if access == 'inc' and not info['ops']:
        return None
    if L == 0 and storage in ('global_mut', 'global_const', 'local_lit', 'local_const') and el == 'string':
        pass
    acts = []
    if access == 'castidx':
        # the index is a computed value narrowed to a byte: its low byte is the index
        if const:
            acts.append(info['show'].format(x='a[(i + gz) is byte]'))
        else:
            acts.append(f'a[(i + gz) is byte] = {info["newv"]};')
            acts.append(info['show'].format(x='a[(i * 1) is byte]'))
            if info['ops']:
                acts.append('a[(gz + i) is byte] += 1;')
    elif access == 'read':
        acts.append(info['show'].format(x='a[i]'))
    elif access == 'store':
        acts.append(f'a[i] = {info["newv"]};')
    else:
        for op in info['ops']:
            rhs = '3' if op in '/%' else '2'
            acts.append(f'a[i] {op}= {rhs};')
    dump = 'for (int k = 0; k < a.length; k += 1) { ' + info['show'].format(x='a[k]') + " write(','); }"
    body = "write('<'); " + " write('.'); ".join(acts) + " write('>'); " + dump
    g = 'int gz = 0;\n'
    pre = ''
    if storage == 'local_lit':
        pre = f'{el}[] a = {lit};'
    elif storage == 'local_const':
        pre = f'const {el}[] a = {lit};'
    elif storage == 'local_vla':
        pre = f'{el} a[{L}]; ' + ' '.join(f'a[{k}] = {v};' for k, v in enumerate(vals))
    elif storage == 'global_mut':
        g += f'{el}[] a = {lit};\n'
    elif storage == 'global_const':
        g += f'const {el}[] a = {lit};\n'
    if storage in ('param_mut', 'param_const_view'):
        pt = f'{el}[]' if storage == 'param_mut' else f'const {el}[]'
        return (g + f'empty acc({pt} a, int i) {{ {body} }}\n'
                f'empty @is_you(int i) {{ int canary = 7; {el}[] b = {lit}; acc(b, i); write(canary); }}\n')
    return g + f'empty @is_you(int i) {{ int canary = 7; {pre} {body} write(canary); }}\n'


def idxc_program(el, storage, L, k):
    """The index is a compile-time constant (literal, const variable, folded expression)."""
    src = idx_program(el, storage, L, 'read' if storage in ('global_const', 'param_const_view', 'local_const') else 'store')
    if src is None:
        return None
    return 'const int KI = ' + str(k) + ';\n' + src.replace('a[i]', f'a[{k}]', 1).replace('a[i]', 'a[KI + 1 - 1]')


STR_PROGS = [
    'empty @is_you(int i) { string s = "hello"; write(\'<\'); write(s[i]); write(\'>\'); }',
    'empty @is_you(int i) { write(\'<\'); write("hello"[i]); write(\'>\'); }',
    'empty @is_you(int i) { string s = ""; write(\'<\'); write(s[i]); write(\'>\'); }',
    'string g = "globl";\nempty @is_you(int i) { write(\'<\'); write(g[i]); write(\'>\'); }',
    'empty @is_you(int i, string s) { write(\'<\'); write(s[i]); write(\'>\'); }',
    'empty @is_you(int i, const string[] ss) { write(\'<\'); write(ss[i]); write(\'>\'); write(ss[0][i]); }',
    'empty @is_you(int i, int[] xs) { write(\'<\'); xs[i] += 1; write(xs[i]); write(\'>\'); }',
    'empty @is_you(int i, const byte[] xs) { write(\'<\'); write(xs[i]); write(\'>\'); }',
    'empty @is_you(int i) { const byte[] v = "hello" is byte[]; write(\'<\'); write(v[i]); write(\'>\'); }',
]
STR_EXTRA = {4: ['héy'], 5: ['ab', 'c', 'def'], 6: ['5', '6', '7'], 7: ['65', '66']}

# constant indices applied to constants: folding the lookup must not turn a negative index into "from the end"
STRC_SOURCES = [
    ('', '"hello"[{k}]'), ('const string S = "hello";\n', 'S[{k}]'), ('', 'ls[{k}]'), ('', "['h', 'e', 'l', 'l', 'o'][{k}]"),
    ('', '[1, 2, 3, 4, 5][{k}]'), ('const int[] T = [1, 2, 3, 4, 5];\n', 'T[{k}]'), ('const string[] SS = ["ab", "cde"];\n', 'SS[1][{k} + 2]'),
    ('const string[] SS = ["ab", "cde"];\n', 'SS[{k} + 4].length'), ('', '("hel" is byte[])[{k} + 2]'),
]
STRC_INDICES = [-32768, -32767, -257, -256, -255, -7, -6, -5, -4, -3, -2, -1, 0, 1, 3, 4, 5, 6, 251, 255, 256, 260, 32767]


def strc_program(src_k, k, form):
    g, e = STRC_SOURCES[src_k]
    idx = {'lit': f'({k})' if k >= 0 else f'(0 - {-k - 1} - 1)', 'const': 'KI + 1 - 1', 'neg': f'-{-k}' if k < 0 else f'{k}'}[form]
    e = e.replace('{k}', idx)
    return (g + f'const int KI = {k if k >= 0 else "0 - " + str(-k - 1) + " - 1"};\n'
            f"empty @is_you(int i) {{ const string ls = \"hello\"; write('<'); write({e}); write('>'); }}\n")


# the index is the counter of a loop bounded by the length, but the body moves it
LOOPIDX_PROGS = [
    "empty @is_you(int n) { int[] arr = [11, 22, 33]; for (int i = 0; i < arr.length; i += 1) { if (n == 0) { write('.'); } else { i += n; } write('<'); write(arr[i]); write('>'); } }",
    "empty @is_you(int n) { byte[] arr = ['a', 'b', 'c', 'd']; for (int i = 0; i < arr.length; i += 1) { try { !truth_is_defeat(n > 0); write('t'); } undo { i += n; } write('<'); write(arr[i]); write('>'); } }",
    "empty @is_you(int n) { int[] arr = [11, 22, 33]; for (int i = 0; i < arr.length; i += 1) { for (int j = 0; j < n; i += 1) { j += 1; } write('<'); arr[i] += 1; write(arr[i]); write('>'); } }",
    "empty @is_you(int n) { bool[] arr = [true, false, true]; int i = 0; while (i < arr.length) { if (n < 0) { i -= 1; } write('<'); write(arr[i]); write('>'); i += 1 + n; } }",
    "int at(const int[] arr, int n) { for (int i = 0; i < arr.length; i += 1) { if (i == 1) { i = i + n; } if (arr[i] == 22) { return i; } } return 0 - 1; }\nempty @is_you(int n) { write('<'); write(at([11, 0, 22], n)); write('>'); }",
]

DIV_PROGS = [
    "empty @is_you(int a, int b) { write('<'); writeln(a / b); write('>'); }",
    "empty @is_you(int a, int b) { write('<'); writeln(a % b); write('>'); }",
    "empty @is_you(int a, int b) { int x = a; write('<'); x /= b; write('>'); writeln(x); }",
    "empty @is_you(int a, int b) { int x = a; write('<'); x %= b; write('>'); writeln(x); }",
    "int g = 0;\nempty @is_you(int a, int b) { g = a; write('<'); g /= b; write('>'); writeln(g); }",
    "int g = 0;\nempty @is_you(int a, int b) { g = a; write('<'); g %= b; write('>'); writeln(g); }",
    "empty @is_you(int a, int b) { int[] v = [a, a]; write('<'); v[1] /= b; write('>'); writeln(v[0]); writeln(v[1]); }",
    "empty @is_you(int a, int b) { int[] v = [a, a]; write('<'); v[1] %= b; write('>'); writeln(v[0]); writeln(v[1]); }",
    "int f(int x) { write('f'); return x; }\nempty @is_you(int a, int b) { write('<'); writeln(f(a) / f(b)); write('>'); }",
    "empty @is_you(int a, int b) { byte[] v = ['x', 'y']; byte d = b is byte; write('<'); v[0] /= d; write('>'); write(v); }",
    "empty @is_you(int a, int b) { write('<'); if (b != 0 and a / b > 0) { write('p'); } if (b == 0 or a % b == 0) { write('q'); } write('>'); }",
    "empty @is_you(int a, int b) { try { write('<'); !truth_is_defeat(a / b == 1); write('>'); } undo { write('u'); } }",
    "empty @is_you(int a, int b) { try { write('<'); !truth_is_defeat(a % b == 1); write('>'); } stop { write('s'); } }",
    # the divisor was checked once before the loop, but it changes inside the loop
    "empty @is_you(int a, int b) { if (b != 0) { write(a / b); } int k = 0; while (k < 3) { write('<'); write(a % b); write('>'); b -= 1; k += 1; } }",
    "empty @is_you(int a, int b) { int d = b; if (d == 0) { return; } write(a / d); for (int k = 0; k < 2; k += 1) { write('<'); write(a / d); d = d / 2; write('>'); } writeln(d); }",
]

LEN_PROG = """
int gz = 0;
empty @is_you(int n) {{
    int canary = 9; write('<');
    {el} a[{n}];
    write('>'); write(a.length); {touch}
    write(canary);
}}
"""
LEN_TOUCH = {'int': 'if (n > 0) { a[n - 1] = 4; write(a[n - 1]); }', 'byte': "if (n > 0) { a[0] = 'k'; write(a[0]); }",
             'bool': 'if (n > 0) { a[n - 1] = true; write(a[n - 1]); }', 'string': 'if (n > 0) { a[0] = "s"; write(a[0]); }'}


def items(tier):
    out = []
    i = 0
    for el in EL:
        for storage in STORAGES:
            for L in (LENS_T if tier == 'thorough' else LENS):
                for access in ACCESS:
                    if idx_program(el, storage, L, access) is not None:
                        out.append((i, 'IDX', el, storage, L, access))
                        i += 1
    for el in EL:
        for storage in STORAGES:
            for L in ((0, 1, 2, 8, 9, 17) if tier == 'thorough' else (0, 1, 8)):
                out.append((i, 'IDXC', el, storage, L))
                i += 1
    for k in range(len(STR_PROGS)):
        out.append((i, 'STR', k))
        i += 1
    for k in range(len(STRC_SOURCES)):
        out.append((i, 'STRC', k))
        i += 1
    for k in range(len(DIV_PROGS)):
        out.append((i, 'DIV', k))
        i += 1
    out.append((i, 'DIVC'))
    i += 1
    for k in range(len(LOOPIDX_PROGS)):
        out.append((i, 'LOOPIDX', k))
        i += 1
    for el in EL:
        out.append((i, 'LEN', el))
        i += 1
    for k in range(len(chain.GIDX_PROGS)):
        out.append((i, 'GIDX', k))
        i += 1
    for W in (2, 3):
        out.append((i, 'LENL', W))
        i += 1
    # chained divisions by constants: the divisors may not be merged when their product wraps (to zero, or at all)
    for W in ((2, 3, 4) if tier == 'thorough' else (2, 3)):
        for form, o1, k1 in chain.chain_items(W, tier):
            if o1 in '/%' and form in (0, 2, 4):
                out.append((i, 'DIVCH', W, form, o1, k1))
                i += 1
    for it in tt.family_P(tier):
        out.append((i, 'NLP', it[1]))
        i += 1
    return out


def word_sizes(tier, idx):
    return [2, 3, 4, 8] if tier == 'thorough' else [2, (3, 4)[idx % 2]]


def run_item(item, tier):
    st = Stats()
    idx, fam = item[0], item[1]
    st.count('family_items', fam)
    Ws = word_sizes(tier, idx)
    if fam == 'IDX':
        _, _, el, storage, L, access = item
        src = idx_program(el, storage, L, access)
        for W in Ws:
            run_program(st, src, [[str(v)] for v in idx_values(L, W, tier)], [W], f'IDX[{el},{storage},len={L},{access}]')
        st.add('cases', len(idx_values(L, 2, tier)))
        st.sample({'family': 'IDX', 'element': el, 'storage': storage, 'length': L, 'access': access, 'indices': idx_values(L, 2)})
    elif fam == 'IDXC':
        _, _, el, storage, L = item
        for k in ((-32768, -32767, -257, -256, -255, -2, -1, 0, 1, L - 2, L - 1, L, L + 1, L + 2, 127, 128, 255, 256, 257, 256 + L - 1, 32766, 32767)
                  if tier == 'thorough' else (-32768, -1, 0, L - 1, L, L + 1, 255, 256, 32767)):
            src = idxc_program(el, storage, L, k)
            if src is not None:
                run_program(st, src, [['0']], Ws[:1], f'IDXC[{el},{storage},len={L},index={k}]')
                st.add('cases')
    elif fam == 'STR':
        k = item[2]
        extra = STR_EXTRA.get(k, [])
        for W in Ws:
            run_program(st, STR_PROGS[k], [[str(v)] + extra for v in idx_values(5, W, tier)], [W], f'STR[{k}]')
    elif fam == 'STRC':
        for k in STRC_INDICES:
            for form in ('lit', 'const', 'neg'):
                if form == 'neg' and k >= 0:
                    continue
                run_program(st, strc_program(item[2], k, form), [['0']], Ws[:1] if tier == 'quick' else Ws, f'STRC[{STRC_SOURCES[item[2]][1]}, index {k} as {form}]')
                st.add('cases')
        st.sample({'family': 'STRC', 'source': STRC_SOURCES[item[2]][1], 'indices': STRC_INDICES})
    elif fam == 'DIV':
        k = item[2]
        for W in Ws:
            bits = 8 * W
            mx = (1 << (bits - 1)) - 1
            vals = [-mx - 1, -7, -1, 0, 1, 7, mx]
            if tier == 'thorough':
                vals = sorted(set([-mx - 1, -mx, mx - 1, mx, -256, -255, 255, 256, 1 << bits - 2, -(1 << bits - 2)] + list(range(-9, 10))))
            run_program(st, DIV_PROGS[k], [[str(a), str(b)] for a in vals for b in vals], [W], f'DIV[{k}]')
        st.sample({'family': 'DIV', 'program': DIV_PROGS[k]})
    elif fam == 'LOOPIDX':
        run_program(st, LOOPIDX_PROGS[item[2]], [[str(n)] for n in (0, 1, 2, 3, 4, -1, -2, 7)], Ws, f'LOOPIDX[{item[2]}]')
        st.add('cases', 8)
    elif fam == 'DIVC':
        # divisors that are compile-time constants: zero, and values that wrap to zero at the word size in use
        forms = ["write('<'); writeln(a / {k}); write('>');", "write('<'); writeln(a % {k}); write('>');", "int x = a; write('<'); x /= {k}; write('>'); writeln(x);",
                 "int[] v = [a, a]; write('<'); v[1] %= {k}; write('>'); writeln(v[1]);", "byte y = 'c'; write('<'); y /= {k}; write('>'); writeln(y is int);",
                 "write('<'); if (a / {k} > 0) {{ write('p'); }} write('>');"]
        for W in Ws:
            bits = 8 * W
            for kt in ('0', str(1 << bits), str(2 << bits), 'KZ', '(KB - KB)', 'CELL', '(CELL * 3)', '1', str((1 << bits) + 1), str((1 << bits) - 1), '256'):
                for f in forms:
                    if 'y /=' in f and kt in ('KZ', '(KB - KB)', 'CELL', '(CELL * 3)'):
                        continue        # a const variable is not coercible to byte
                    src = f'const int KZ = 0; const int KB = 77; const int CELL = {1 << bits};\nempty @is_you(int a) {{ ' + f.format(k=kt) + ' }\n'
                    prog = parse_program(src)
                    for a in ('41', '0'):
                        tag = f'DIVC[{f[:28]}..., divisor {kt}] a={a}'
                        ref = ref_trace(prog, [a], W)
                        lines, err = compile_case(src, W, 64)
                        st.add('evaluations')
                        if err:
                            faults = ref[0] == 'ok' and any(e == ('f', 'error') for e in ref[1][0])
                            if err[0] == 'reject' and faults:
                                st.add('constant_divisor_rejected_at_compile_time')
                            else:
                                st.viol(f'{tag}: {err[0]}: {err[1]}', {'kind': 'conformance', 'src': src, 'prog': repr(prog), 'argv': [a], 'W': W, 'S': 64,
                                                                          'unchecked': False, 'tag': tag})
                            break
                        check_conformance(st, src, prog, [a], W, 64, tag=tag, lines=lines, ref=ref)
                        st.add('cases')
        st.sample({'family': 'DIVC', 'forms': len(forms)})
    elif fam == 'LEN':
        el = item[2]
        for nexpr in ('n', '(n + gz) is byte'):
            src = LEN_PROG.format(el=el, touch=LEN_TOUCH[el].replace('n - 1', 'a.length - 1').replace('n > 0', 'a.length > 0'), n=nexpr)
            prog = parse_program(src)
            for W in Ws:
                bits = 8 * W
                mx = (1 << (bits - 1)) - 1
                maxlen = mx if el in ('byte', 'bool') else mx // W
                if nexpr == 'n':
                    exact = [-mx - 1, -9, -8, -7, -2, -1, 0, 1, 2, 5, maxlen + 1, mx]
                    # lengths whose byte size wraps around the whole word to something small
                    elw = {'int': W, 'string': 2 * W, 'byte': 1, 'bool': 1}[el]
                    for mult in (1, 2):
                        for d in (1, 2, 3):
                            n_ = (mult << bits) // elw + d
                            if maxlen < n_ <= mx and n_ not in exact:
                                exact.append(n_)
                else:
                    # the length is the low byte of n: only values whose low byte is small are compared exactly
                    exact = [0, 1, 2, 5, 256, 257, 258, 261, -256, -255, -254, 513, -mx - 1, mx - 254, 1280 + 2]
                for n in exact:
                    if nexpr == 'n' and 0 <= n <= maxlen and n > 5:
                        continue
                    for S in (8, 64):
                        if (n & 0xFF if nexpr != 'n' else n) > 1 and S == 8:
                            continue
                        check_conformance(st, src, prog, [str(n)], W, S, tag=f'LEN[{el}] length={nexpr} n={n} S={S}')
                if nexpr != 'n':
                    continue
                # the same lengths written as compile-time constants (literal / const expression): the guard may not be
                # dropped because the compiler knows the number; rejecting at compile time is allowed iff it would fault
                for n in exact:
                    if 0 <= n <= maxlen and n > 5:
                        continue
                    for form in ('lit', 'const'):
                        txt = f'({n})' if n >= 0 else f'(0 - {-n - 1} - 1)'
                        csrc = ('const int KN = ' + txt + ';\n' if form == 'const' else '') + LEN_PROG.format(
                            el=el, touch=LEN_TOUCH[el].replace('n - 1', 'a.length - 1').replace('n > 0', 'a.length > 0'),
                            n='KN + 1 - 1' if form == 'const' else txt)
                        cprog = parse_program(csrc)
                        for S in (8, 64):
                            if n > 1 and S == 8:
                                continue
                            tag = f'LEN[{el}] constant length ({form}) {n} S={S}'
                            lines, err = compile_case(csrc, W, S)
                            if err:
                                ref = ref_trace(cprog, [str(n)], W)
                                faults = ref[0] == 'ok' and any(e == ('f', 'error') for e in ref[1][0])
                                st.add('evaluations')
                                if err[0] == 'reject' and faults:
                                    st.add('constant_length_rejected_at_compile_time')
                                else:
                                    st.viol(f'{tag}: {err[0]}: {err[1]}', {'kind': 'conformance', 'src': csrc, 'prog': repr(cprog), 'argv': [str(n)],
                                                                              'W': W, 'S': S, 'unchecked': False, 'tag': tag})
                                continue
                            check_conformance(st, csrc, cprog, [str(n)], W, S, tag=tag, lines=lines)
                            st.add('constant_lengths')
                # lengths that are representable but cannot fit any stack the program has: must be stack_overflow, cleanly
                per = 8 if el == 'bool' else 1
                for n in (maxlen, maxlen - 1, 64 * W * per + 8, 4000 * per):
                    if n <= 5 or n > maxlen:
                        continue
                    _must_overflow(st, src, prog, n, W, 64, f'LEN[{el}] n={n}')
        st.sample({'family': 'LEN', 'element': el})
    elif fam == 'GIDX':
        run_program(st, chain.GIDX_PROGS[item[2]], [[str(n)] for n in chain.GIDX_INPUTS], Ws, f'GIDX[{item[2]}]')
        st.add('cases', len(chain.GIDX_INPUTS))
        st.sample({'family': 'GIDX', 'program': chain.GIDX_PROGS[item[2]], 'inputs': chain.GIDX_INPUTS})
    elif fam == 'LENL':
        for tag, src in chain.lenl_programs(item[2]):
            prog = parse_program(src)
            for i_ in (0, 3, 60):
                _must_overflow(st, src, prog, i_, item[2], 64, f'LENL[{tag}] i={i_}')
                st.add('cases')
        st.sample({'family': 'LENL', 'W': item[2], 'programs': [t for t, _ in chain.lenl_programs(item[2])]})
    elif fam == 'DIVCH':
        _, _, W, form, o1, k1 = item
        src = chain.chain_program(form, o1, k1, W, ops2=['/', '%'])
        vals = chain.xs(W)
        if tier == 'quick':
            vals = vals[::3] + vals[-2:]
        run_program(st, src, [[str(v)] for v in vals], [W], f'DIVCH[{chain.FORMS[form]}; op1 {o1}; K1 {k1}; op2 / %; every K2]')
        st.add('cases', len(vals))
    elif fam == 'NLP':
        src = tt.build_P(item[2])
        run_program(st, src, tt.P_ARGVS, [2, 4] if tier == 'thorough' else [2], f'NLP{item[2]}')
    return st


def _must_overflow(st, src, prog, n, W, S, tag, early_ok=False):
    from ..cases import run_impl, describe
    from .. import svm
    case = {'kind': 'overflow', 'src': src, 'prog': repr(prog), 'argv': [str(n)], 'W': W, 'S': S, 'tag': tag, 'early_ok': early_ok}
    r, err = run_impl(src, [str(n)], W, S, mon=svm.Monitor())
    st.add('evaluations')
    if err:
        st.viol(f'{tag}: {err}', case)
        return
    st.vm(r)
    ok = r.outcome == 'loop' and (list(r.pre) == [('y', ord('<')), ('f', 'stack_overflow'), ('f', 'error')]
                                  or early_ok and list(r.pre) == [('f', 'stack_overflow'), ('f', 'error')])      # a stack too small even for the frame
    if not ok:
        st.viol(f'{tag}: an array that cannot fit must raise stack_overflow before anything else happens; observed {describe(r)[:300]}', case)
    elif r.violations:
        st.viol(f'{tag}: monitor {r.violations[0]["msg"]}', case)
    else:
        st.add('traces_validated_against_impl')
        st.count('outcomes', 'error')


def coverage(total, tier):
    return std_coverage(total, {
        'IDX': ('every index in -10..len+10 plus {min,min+1,max-1,max,255,256,257,256+len-1,256+len,-256,-256+len,2^(n-2),-2^(n-2)} x length in {0,1,2,3,7,8,9,15,16,17,31,32,33}'
                if tier == 'thorough' else 'index in {min,-8,-2,-1,0,1,7,8,len-1,len,len+1,255,256,max} x length in {0,1,2,7,8,9}') + ' x element int/byte/bool/string x '
               'storage {local literal, local const literal, VLA, mutable global, const global, by-reference parameter, const view of a '
               'mutable array} x access {read, store, every op=, index computed and narrowed with `is byte`}; the same with compile-time constant '
               'indices (literal and const-variable expression; ' + ('22 values, lengths 0,1,2,8,9,17' if tier == 'thorough' else '9 values, lengths 0,1,8') + '); string indexing from 9 sources incl. argv',
        'STRC': f'{len(STRC_SOURCES)} constant sources (string literal, const global/local string, char and int array literals, const tables, string-array elements, byte view) x '
                f'{len(STRC_INDICES)} constant indices written as literal, const-variable expression and unary minus',
        'DIV': '/ % /= %= on locals, globals, int and byte array elements, call operands, conditions and !truth_is_defeat arguments; '
               'dividend and divisor over ' + ('({-9..9} + {min,min+1,max-1,max,+-255,+-256,+-2^(n-2)})^2' if tier == 'thorough' else '{min,-7,-1,0,1,7,max}^2'),
        'LOOPIDX': f'{len(LOOPIDX_PROGS)} loops bounded by the array length whose body moves the counter (in an else branch, an undo handler, a nested loop header, by a negative step) x 8 offsets',
        'DIVC': '6 division forms (value, %, /= on local, %= on element, /= on byte, condition) x 11 constant divisors (0, 2^n, 2^(n+1), const zero, K - K, const 2^n, 3 * 2^n, 1, 2^n + 1, '
                '2^n - 1, 256): compile-time rejection allowed iff the run-time would fault',
        'LEN': 'array length (run-time value; computed + narrowed with `is byte`; literal; const-variable expression) in {min,-9,-8,-7,-2,-1,0,1,2,5,maxlen+1,max} (exact reference match at stack 8 and 64) and '
               '{maxlen, maxlen-1, just above the stack size, 4000 elements} (must be a clean stack_overflow) for int/byte/bool/string elements',
        'GIDX': f'{len(chain.GIDX_PROGS)} statements whose element index lives in a place the statement itself changes (a mutable global moved by a call on the right-hand side, a cell of another array written '
                f'through a reference, the loop counter) for int/byte/string/bool elements, locals and globals x {len(chain.GIDX_INPUTS)} displacements: the access after the move must be checked again',
        'LENL': 'dynamic int/string arrays whose length is the .length of a bool/byte global just long enough for length x element size to wrap the word (W=3: 2^24/size + {1,2,40}; directly, through a '
                'parameter, plus a zero global, through a local): must be a clean stack_overflow; W=2 controls',
        'DIVCH': 'x / K1 / K2, x % K1 % K2 and mixed, also as K2 / (x / K1) and through const variables, K1 (quick: 8 of them) and K2 over 19 constants whose products wrap (to zero: 2^(n/2) x 2^(n/2)) or do not: no spurious division_by_zero, exact quotients',
        'NLP': 'family P of C02 (preemptive defeat functions x continuations x undo/stop)',
        'word_sizes': '2,3,4,8' if tier == 'thorough' else '2 plus one of 3,4 per program',
    })


def vacuity(total, tier):
    oc = total.get('outcomes', {})
    if not oc.get('error') or not oc.get('win'):
        return f'fault and non-fault runs must both occur: {oc}'
    return None


def replay(case):
    if case.get('kind') == 'overflow':
        import ast
        st = Stats()
        _must_overflow(st, case['src'], ast.literal_eval(case['prog']), int(case['argv'][0]), case['W'], case['S'], case['tag'], early_ok=case.get('early_ok', False))
        return [v['msg'] for v in st.get('viol', [])]
    return replay_conformance(case)
