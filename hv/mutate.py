"""Mechanical mutation sweep: a complement to the hand-made seeded changes of DESIGN.md section 9.

    python -m hv.mutate list                      -> number of mutation sites per operator
    python -m hv.mutate run N [--seed S] [--stride K] [--out FILE]
    python -m hv.mutate full [FILE]               -> survivors of the reduced battery against every full quick tier

For each sampled site one mutant of hidc is written into a scratch worktree (never into /repo), the 45 pinned
tests are run on it (mutants they kill are discarded: the brief asks for changes the existing tests accept), and
then a reduced battery of the checks (every K-th work item of every quick tier) is run with HV_REPO pointing at the
mutant.  The result (killed by tests / killed by which check / survived the battery) is appended to FILE as JSON
lines.  Survivors are either equivalent mutants or blind spots; they are looked at by hand (DESIGN.md section 9).

Operators (single site each):
  cmp     comparison operator in the compiler's own logic flipped (< <=, == !=, ...)
  instr   emitted instruction class replaced by its neighbour (Hlt/Hle, Hltu/Hleu, Lws/Lbs, Add/Sub, ...)
  reg     one register operand replaced by another (r0/r1/r2)
  drop    one `yield asm.X(...)` statement removed
  const   small integer constant +-1
  bool    True/False flipped (keep=, const=, ...)
"""
import ast
import json
import os
import random
import re
import subprocess
import sys
import time

ROOT = os.path.dirname(os.path.dirname(os.path.abspath(__file__)))
FILES = ['hidc/codegen/generator.py', 'hidc/codegen/stdlib.py', 'hidc/codegen/asm.py', 'hidc/codegen/tracker.py',
         'hidc/ast/expressions.py', 'hidc/ast/operators.py', 'hidc/ast/statements.py', 'hidc/ast/blocks.py',
         'hidc/ast/program.py', 'hidc/ast/symbols.py', 'hidc/parser/grammar.py', 'hidc/lexer/readers.py',
         'hidc/lexer/scanner.py']
INSTR_SWAP = {'Hlt': 'Hle', 'Hle': 'Hlt', 'Hgt': 'Hge', 'Hge': 'Hgt', 'Hltu': 'Hleu', 'Hleu': 'Hltu', 'Hgtu': 'Hgeu', 'Hgeu': 'Hgtu',
              'Heq': 'Hne', 'Hne': 'Heq', 'Lws': 'Lbs', 'Lbs': 'Lws', 'Sws': 'Sbs', 'Sbs': 'Sws', 'Lwc': 'Lbc', 'Lbc': 'Lwc',
              'Lwso': 'Lbso', 'Lbso': 'Lwso', 'Swso': 'Sbso', 'Sbso': 'Swso', 'Add': 'Sub', 'Sub': 'Add', 'Mul': 'Add', 'Div': 'Mod', 'Mod': 'Div',
              'Lwo': 'Lbo', 'Lbo': 'Lwo', 'Swo': 'Sbo', 'Sbo': 'Swo', 'Lwco': 'Lbco', 'Lbco': 'Lwco'}
CMP_SWAP = {ast.Lt: '<=', ast.LtE: '<', ast.Gt: '>=', ast.GtE: '>', ast.Eq: '!=', ast.NotEq: '==', ast.Is: 'is not', ast.IsNot: 'is',
            ast.In: 'not in', ast.NotIn: 'in'}
CMP_TEXT = {ast.Lt: '<', ast.LtE: '<=', ast.Gt: '>', ast.GtE: '>=', ast.Eq: '==', ast.NotEq: '!=', ast.Is: 'is', ast.IsNot: 'is not',
            ast.In: 'in', ast.NotIn: 'not in'}


def sites(repo):
    """-> list of (operator, file, line, col, old_text, new_text)"""
    out = []
    for f in FILES:
        path = os.path.join(repo, f)
        src = open(path).read()
        lines = src.split('\n')
        tree = ast.parse(src)
        for node in ast.walk(tree):
            if isinstance(node, ast.Compare) and len(node.ops) == 1 and type(node.ops[0]) in CMP_SWAP:
                # locate the operator text between left operand and comparator on one line
                l, r = node.left, node.comparators[0]
                if l.end_lineno == r.lineno:
                    seg = lines[l.end_lineno - 1][l.end_col_offset:r.col_offset]
                    old = CMP_TEXT[type(node.ops[0])]
                    if seg.strip() == old:
                        col = l.end_col_offset + seg.index(old)
                        out.append(('cmp', f, l.end_lineno, col, old, CMP_SWAP[type(node.ops[0])]))
            elif isinstance(node, ast.Constant) and isinstance(node.value, bool):
                out.append(('bool', f, node.lineno, node.col_offset, str(node.value), str(not node.value)))
            elif isinstance(node, ast.Constant) and isinstance(node.value, int) and not isinstance(node.value, bool) and 0 <= node.value <= 16:
                txt = lines[node.lineno - 1][node.col_offset:node.end_col_offset]
                if txt == str(node.value):
                    out.append(('const', f, node.lineno, node.col_offset, txt, str(node.value + 1)))
                    if node.value > 0:
                        out.append(('const', f, node.lineno, node.col_offset, txt, str(node.value - 1)))
            elif isinstance(node, ast.Attribute) and isinstance(node.value, ast.Name) and node.value.id == 'asm' and node.attr in INSTR_SWAP:
                col = node.end_col_offset - len(node.attr)
                out.append(('instr', f, node.end_lineno, col, node.attr, INSTR_SWAP[node.attr]))
            elif isinstance(node, ast.Attribute) and isinstance(node.value, ast.Name) and node.value.id == 'self' and node.attr in ('r0', 'r1', 'r2'):
                col = node.end_col_offset - 2
                new = {'r0': 'r1', 'r1': 'r2', 'r2': 'r0'}[node.attr]
                out.append(('reg', f, node.end_lineno, col, node.attr, new))
            elif isinstance(node, ast.Expr) and isinstance(node.value, ast.Yield) and node.lineno == node.end_lineno:
                txt = lines[node.lineno - 1]
                if txt.strip().startswith('yield asm.'):
                    out.append(('drop', f, node.lineno, node.col_offset, txt[node.col_offset:], 'pass  # dropped'))
        if f.endswith('stdlib.py'):
            # the run-time library is assembly text inside Python strings: mutate its mnemonics
            for ln, text in enumerate(lines, 1):
                m = re.match(r'^(\s*)(hlt|hle|hgt|hge|hltu|hleu|hgtu|hgeu|heq|hne|add|sub|lws|lbs|sws|sbs|lwso|lbso|swso|sbso)\b', text)
                if m:
                    old = m.group(2)
                    new = INSTR_SWAP[old.capitalize()].lower()
                    out.append(('libinstr', f, ln, len(m.group(1)), old, new))
    return out


def apply_site(repo, site):
    op, f, line, col, old, new = site
    path = os.path.join(repo, f)
    lines = open(path).read().split('\n')
    text = lines[line - 1]
    assert text[col:col + len(old)] == old, (site, text)
    lines[line - 1] = text[:col] + new + text[col + len(old):]
    open(path, 'w').write('\n'.join(lines))


def sh(cmd, cwd=None, env=None, timeout=3600):
    p = subprocess.run(cmd, cwd=cwd, env=env, stdout=subprocess.PIPE, stderr=subprocess.STDOUT, timeout=timeout)
    return p.returncode, p.stdout.decode(errors='replace')


BATTERY = ['C01', 'C02', 'C04', 'C05', 'C09', 'C08', 'C03', 'C17', 'C13', 'C14', 'C15', 'C16', 'C07', 'C06', 'C18', 'C10', 'C11', 'C12']


def battery_items(stride):
    """Every stride-th work item of every quick tier (computed once on the clean tree)."""
    from . import runner
    sel = {}
    for c in BATTERY:
        n = len(list(runner.load_check(c).items('quick')))
        k = max(1, stride)
        idx = list(range(BATTERY.index(c) % k, n, k))
        sel[c] = ','.join(str(i) for i in idx)
    return sel


def full_pass(out, base='/repo'):
    """Survivors of the reduced battery are run against every full quick tier (stopping at the first kill)."""
    recs = [json.loads(l) for l in open(out)]
    wt = f'/tmp/hv_mutf_{os.getpid()}'
    sh(['git', '-C', base, 'worktree', 'add', '-f', '--detach', wt, 'HEAD'])
    env = dict(os.environ)
    env['HV_REPO'] = wt
    env['HV_OUT_DIR'] = wt + '_out'
    try:
        for r in recs:
            if r['result'] != 'survived_battery' or 'full' in r:
                continue
            sh(['git', '-C', wt, 'checkout', '--', '.'])
            apply_site(wt, tuple(r['site']))
            r['full'] = 'survived_all_quick_tiers'
            for c in BATTERY:
                rc, o = sh(['/venv/bin/python', '-m', 'hv.check', c, '--tier', 'quick'], cwd=ROOT, env=env, timeout=7200)
                if rc == 1:
                    first = [l for l in o.split('\n') if l.startswith('  ')]
                    r['full'] = 'killed_by_' + c
                    r['first'] = first[0][:200] if first else ''
                    break
                if rc == 2:
                    r['full'] = 'harness_error_in_' + c
                    r['first'] = o[-300:]
                    break
            print(r['full'], r['site'][:3], r['site'][4], '->', r['site'][5], flush=True)
            with open(out, 'w') as f:
                for x in recs:
                    f.write(json.dumps(x) + '\n')
    finally:
        sh(['git', '-C', base, 'worktree', 'remove', '--force', wt])
        import shutil
        shutil.rmtree(wt + '_out', ignore_errors=True)


def summary(out):
    """Markdown summary of the sweep (pasted into DESIGN.md between the MUTATION_SUMMARY markers by `hv.mutate summary --write`)."""
    recs = [json.loads(l) for l in open(out)]
    tri_path = os.path.join(ROOT, 'seeded', 'mutation_triage.json')
    tri = json.load(open(tri_path)) if os.path.exists(tri_path) else {}
    by = {}
    for r in recs:
        by.setdefault(r['result'], []).append(r)
    ops = {}
    for r in recs:
        o = ops.setdefault(r['site'][0], {'n': 0, 'tests': 0, 'checks': 0, 'surv': 0})
        o['n'] += 1
        o['tests' if r['result'] == 'killed_by_pinned_tests' else 'checks' if r['result'] == 'killed_by_checks' else 'surv'] += 1
    killers = {}
    for r in by.get('killed_by_checks', []):
        for c in r.get('killed_by', []):
            killers[c] = killers.get(c, 0) + 1
    L = [f'Sampled mutants: {len(recs)} (of {len(sites("/repo"))} sites).  Killed by the 45 pinned tests (discarded): '
         f'{len(by.get("killed_by_pinned_tests", []))}.  Killed by the reduced battery: {len(by.get("killed_by_checks", []))} '
         f'(first killing check: ' + ', '.join(f'{c} {n}' for c, n in sorted(killers.items(), key=lambda x: -x[1])) + f').  Survived the reduced battery: '
         f'{len(by.get("survived_battery", []))}; harness errors: {len(by.get("harness_error", []))}.', '',
         '| operator | sampled | killed by pinned tests | killed by the battery | survived the battery |', '|---|---|---|---|---|']
    for o, v in sorted(ops.items()):
        L.append(f'| {o} | {v["n"]} | {v["tests"]} | {v["checks"]} | {v["surv"]} |')
    L += ['', 'Survivors of the reduced battery, each followed up by hand and with full quick tiers:', '']
    for r in by.get('survived_battery', []):
        s = r['site']
        key = f'{s[1]}:{s[2]}:{s[4]}->{s[5]}'
        L.append(f'* `{s[1]}:{s[2]}` `{s[4]}` -> `{s[5]}` ({s[0]}): ' + tri.get(key, r.get('full', 'not yet followed up')))
    return '\n'.join(L)


def main():
    a = sys.argv[1:]
    if a and a[0] == 'summary':
        out = os.path.join(ROOT, 'seeded', 'mutation_sweep.jsonl')
        text = summary(out)
        if '--write' in a:
            p = os.path.join(ROOT, 'DESIGN.md')
            d = open(p).read()
            i = d.index('<!-- MUTATION_SUMMARY -->') + len('<!-- MUTATION_SUMMARY -->')
            j = d.index('<!-- /MUTATION_SUMMARY -->')
            open(p, 'w').write(d[:i] + '\n' + text + '\n' + d[j:])
        else:
            print(text)
        return
    if a and a[0] == 'full':
        full_pass(a[1] if len(a) > 1 else os.path.join(ROOT, 'seeded', 'mutation_sweep.jsonl'))
        return
    if a and a[0] == 'list':
        ss = sites('/repo')
        cnt = {}
        for s in ss:
            cnt[s[0]] = cnt.get(s[0], 0) + 1
        print(len(ss), cnt)
        return
    n = int(a[1])
    seed = int(a[a.index('--seed') + 1]) if '--seed' in a else 1
    stride = int(a[a.index('--stride') + 1]) if '--stride' in a else 12
    out = a[a.index('--out') + 1] if '--out' in a else os.path.join(ROOT, 'seeded', 'mutation_sweep.jsonl')
    base = a[a.index('--base') + 1] if '--base' in a else '/repo'
    wt = f'/tmp/hv_mut_{os.getpid()}'
    sh(['git', '-C', base, 'worktree', 'add', '-f', '--detach', wt, 'HEAD'])
    try:
        ss = sites(wt)
        rnd = random.Random(seed)
        rnd.shuffle(ss)
        sel = battery_items(stride)
        done = set()
        if os.path.exists(out):
            for l in open(out):
                try:
                    done.add(tuple(json.loads(l)['site']))
                except Exception:
                    pass
        env = dict(os.environ)
        env['HV_REPO'] = wt
        env['HV_OUT_DIR'] = wt + '_out'
        env['PYTHONPATH'] = wt
        count = 0
        for site in ss:
            if count >= n:
                break
            if tuple(site) in done:
                continue
            sh(['git', '-C', wt, 'checkout', '--', '.'])
            apply_site(wt, site)
            t0 = time.time()
            rec = {'site': list(site)}
            rc, o = sh(['/venv/bin/python', '-m', 'pytest', '-q', '-x', '-p', 'no:cacheprovider', 'tests/test_lexer.py', 'tests/test_parser.py',
                        'tests/test_typecheck.py'], cwd=wt, env=env, timeout=600)
            if rc != 0:
                rec['result'] = 'killed_by_pinned_tests'
            else:
                count += 1
                rec['result'] = 'survived_battery'
                rec['killed_by'] = []
                for c in BATTERY:
                    rc, o = sh(['/venv/bin/python', '-m', 'hv.check', c, '--tier', 'quick', '--only', sel[c]], cwd=ROOT, env=env, timeout=3600)
                    if rc == 1:
                        rec['killed_by'].append(c)
                        rec['result'] = 'killed_by_checks'
                        first = [l for l in o.split('\n') if l.startswith('  ')]
                        rec['first'] = first[0][:200] if first else ''
                        break
                    if rc == 2 and 'vacuous' not in o:
                        rec['killed_by'].append(c + ':harness')
                        rec['result'] = 'harness_error'
                        rec['first'] = o[-300:]
                        break
            rec['wall_s'] = round(time.time() - t0, 1)
            with open(out, 'a') as f:
                f.write(json.dumps(rec) + '\n')
            print(rec['result'], site[:3], site[4], '->', site[5], rec.get('killed_by', ''), flush=True)
    finally:
        sh(['git', '-C', base, 'worktree', 'remove', '--force', wt])
        import shutil
        shutil.rmtree(wt + '_out', ignore_errors=True)


if __name__ == '__main__':
    main()
