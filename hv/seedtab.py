"""Regenerates the seeded-change table in DESIGN.md (between the markers) from /verif/seeded/*/meta.json:
    python -m hv.seedtab"""
import glob
import json
import os

ROOT = os.path.dirname(os.path.dirname(os.path.abspath(__file__)))

DESCR = {
    'C01-1': ('length of the @is_you array parameter computed from the scalars declared before it', 'a scalar parameter after the array parameter'),
    'C01-2': ('a non-const global on the left of an arithmetic operator is no longer copied before the right operand is evaluated', 'the right operand calls a function that reassigns that global'),
    'C02-1': ('left operand of ?? evaluated into the caller\'s result register', '?? compiled with r0 as output (return value, left operand of an operator) and a non-constant right operand'),
    'C02-2': ('stop handler reloads ap before restoring fp', 'defeat raised inside a called defeat function, then a stack array allocation'),
    'C03-1': ('signed instead of unsigned halt in the int-to-bool normalisation', 'a negative run-time int cast to bool and used as a value'),
    'C03-2': ('return restores the real defeat handler before evaluating its value', 'try { return !f(x); } stop {..} where !f is defeated'),
    'C04-1': ('write(int) digit buffer accounted without live stack arrays', 'live array literal, write(int) of a many-digit number as deepest call, stack exactly full'),
    'C04-2': ('stop handler reloads ap before restoring fp', 'defeat in a callee under try/stop, later array allocation or recursion'),
    'C05-1': ('preemptive flag of if/else lost for the else branch (property hoisted into the base class)', 'preempt only in an else branch of a defeat function returning into defeat'),
    'C05-2': ('signed compare in the room check of dynamic arrays', 'byte array with negative run-time length'),
    'C06-1': ('right operand of ?? parsed in the unrestricted context', 'you-call or nested ?? in the right operand'),
    'C06-2': ('parser memo cache keyed without the context argument', 'you-call or nested ?? in the left operand of ??'),
    'C07-1': ('overload table re-ordered while functions are being typechecked', 'caller declared between overloads, call coercible to several of them'),
    'C07-2': ('"shadows a global" decided by name instead of identity', 'a global of the same name exists and the name is redeclared locally'),
    'C08-1': ('stop handler reloads ap before restoring fp', 'defeat raised in a callee under try/stop, array allocation afterwards'),
    'C08-2': ('closing-brace ap reset dropped for blocks that may also exit early', 'block declaring an array with a conditional break/return inside, left by falling through'),
    'C09-1': ('compile-time wrap skips exactly +2^(n-1)', 'folded constant equal to 2^(n-1) consumed by a comparison or division'),
    'C09-2': ('narrowing cast dropped in truth-test contexts', 'e is byte used directly as a condition with a non-zero value whose low byte is zero'),
    'C10-1': ('OverflowError of chr() no longer caught', '\\u{...} escape >= 0x80000000'),
    'C10-2': ('global array length no longer masked before the size guard', 'used global array with a negative constant length'),
    'C11-1': ('unary operand parsed at the is level', 'unary operator directly followed by is'),
    'C11-2': ('% moved into the additive operator table', '% to the right of + or - , or followed by * or /'),
    'C12-1': ('source split with splitlines()', 'form feed, vertical tab, U+2028 ... inside a literal or comment'),
    'C12-2': ('integer literals converted with int(lit, 0)', 'decimal literal with leading zeros'),
    'C13-1': ('hex escapes of bytes < 0x10 emitted without padding', 'control bytes other than \\n \\r in constants'),
    'C13-2': ('constant bool arrays take the length of their packed storage', 'global/const bool array literal of >= 2 elements'),
    'C14-1': ('unary minus folded without word-size wrap', 'operand equal to INT_MIN, result consumed by comparison or division'),
    'C14-2': ('.length of an array literal folded after a shallow purity check', 'array literal with an effectful or faulting element that is not a bare call'),
    'C15-1': ('string index on the right of an operator keeps the left operand in r0, length load only with the bounds check', 'computed left operand, string index on the right, checked build'),
    'C15-2': ('virtual-defeat test in preempt dropped for return-protected functions', 'preemptive defeat function under try/stop with inevitable defeat, checked build'),
    'C16-1': ('try exit analysis ignores the handler when the body shows no DEFEAT', 'try body that defeats only through a value-returning defeat call in an expression, handler falls through'),
    'C16-2': ('loop back edge dropped when the body "always returns"', 'loop body with a continue path and otherwise return'),
    'C17-1': ('write_int buffer reservation ignores static stack arrays', 'live array literal, write(int) deepest, nearly full stack'),
    'C17-2': ('emptiness test of write_const_byte_array looks at the origin', 'zero-length const byte array, or const byte array at const address 0'),
    'C18-1': ('array-literal element types iterated as a set', 'literal mixing a shrinkable int with a byte expression; two processes with different hash seeds'),
    'C18-2': ('dynamic-array room check forgets the frame offset', 'dynamic array, stack size within a 4-word window above S_min'),
    # ---- round 2
    'C01-3': ('local-name scope not closed when a block ends in return/break/continue', 'a local shadowing a global in such a block, the global used later in the function'),
    'C01-4': ('overload fallback ignores the argument count (zip truncation)', 'overloads of different arity, shorter first, call needing a coercion'),
    'C02-3': ('break/continue inside a try/stop body makes defeat real again', 'loop wholly inside a try/stop body, break/continue taken, defeat afterwards'),
    'C02-4': ('try exit analysis ignores the handler unless the body shows DEFEAT', 'defeat only through a defeat call inside an expression; handler leaves differently'),
    'C03-3': ('!truth_is_defeat(constant true) in a defeat function emits a bare halt', 'constant-true argument, defeat function reached from try/stop'),
    'C03-4': ('entry pre-check of write_const_byte_array removed', 'zero-length const byte array written'),
    'C04-3': ('byte/bool globals no longer copied when their value must be kept', 'a[g] = f() with g a mutable byte global that f reassigns'),
    'C04-4': ('dynamic-array room test rewritten as free >= size + reserve', 'byte array with a small negative length'),
    'C05-3': ('full-word register value survives an `is byte` cast as fast value', 'computed int `is byte` as index of a byte-array store or as array length, value >= 256 or negative'),
    'C05-4': ('division guard hoisted out of the shared arithmetic helper', '/= or %= on an array element with a zero divisor'),
    'C06-3': ('try handler parsed in the try-body context', 'flavour-specific code inside an undo/stop handler'),
    'C06-4': ('?? placement test uses & instead of in', '?? in an ordinary or defeat function or in a try body'),
    'C07-3': ('ExitMode.replace returns self when the old mode is absent', 'loop with non-constant condition whose body always returns'),
    'C07-4': ('folded constants take shrinkability from the (already coerced) operands', 'const int in folded arithmetic used where a byte is required'),
    'C08-3': ('reset_ap subtracts static sizes instead of reloading the saved origin', 'scope holding both a literal array and a dynamically sized array'),
    'C08-4': ('break/continue out of a try/stop reloads the ap saved at try entry', 'array declared in the loop body before the try, break/continue inside the try'),
    'C09-3': ('halt inversion of hgt is hlt instead of hle', '`>` with equal operands as branch/value inside a try where the false outcome leads to defeat'),
    'C09-4': ('signed compares in the int-to-bool normalisation', 'negative int cast to bool and used as a value'),
    'C10-3': ('"did you mean write" hint looks up the flavoured name', 'unresolved call of @print / !println ...'),
    'C10-4': ('defeat/try_fp state words reserved only if DEFEAT is in the exit modes', 'program whose only user of [defeat] is a preempt block'),
    'C11-3': ('equality split off below the relational operators', '== or != followed by a relational operator without parentheses'),
    'C11-4': ('right operand of ?? parsed one level too tight', 'top-level `or` in the right operand of ??'),
    'C12-3': ('byte escape returned as int and tested for truthiness', 'the escape \\x00'),
    'C12-4': ('cursor column reported as displayed (tabs expanded)', 'a TAB before or inside a token'),
    'C13-3': ('string -> byte[] conversion evaluates the string into r0', 'the string arrives in a register (local, parameter, element, call result)'),
    'C13-4': ('constant tables interned by values only', 'two constant arrays with equal values and different element width'),
    'C14-3': ('constant in-range index skips the bounds check (signed compare)', 'negative constant index into an array of constant length'),
    'C14-4': ('all-constant mutable array literals become static data', 'such a literal modified and evaluated a second time'),
    'C15-3': ('allocation checks merged; length re-fetched into the register holding the byte size', 'checked build, int/string dynamic array, second allocation while it is live'),
    'C15-4': ('length load skipped when unchecked also skips the byte-offset computation of bool stores', 'unchecked build, store into a bool[] at index >= 8 or with a stale r2'),
    'C16-3': ('any call named all_is_win/all_is_broken treated as terminal', 'user-defined overload with parameters called as last statement'),
    'C16-4': ('a nested block statement overwrites the exit modes collected so far', 'constant-true loop whose only breaks sit in a nested if, followed by another block statement'),
    'C17-3': ('loop-head halt guard removed from write_string_loop', 'string write inside try/undo with defeat after it'),
    'C17-4': ('write_state_byte_array_loop loads a word instead of a byte', 'the array written is the last datum of the state section'),
    'C18-3': ('unary minus folded without word-size wrap', 'INT_MIN literal consumed by a compile-time comparison or division'),
    'C18-4': ('--lint tolerates a closing return after an endless loop and then compiles it', 'lint on, block ending in return after while(true)'),
    # ---- round 3 (sub-agents confined to a compiler area, free choice of property)
    'C13-A1-1': ('byte escape reader returns an int that is tested for truthiness', 'the escape \\x00 (or \\0) in a string literal'),
    'C12-A1-2': ('integer-literal regexes rebuilt by a helper with `?` for `*`', 'a literal with two or more digit separators'),
    'C10-A1-3': ('scanner indexes source.lines directly, bypassing the empty-source guard', 'a source with zero lines (empty file)'),
    'C05-A2-1': ('preemptive flag of a code block computed from control-block children only', 'a preempt block nested in a plain { } block or try body of a defeat function'),
    'C06-A2-2': ('left operand of ?? validated by an incomplete tree walk instead of being re-parsed', 'you-call or nested ?? below a cast/index/.length in the left operand'),
    'C06-A2-3': ('undo/stop handler parsed in the try-body context', 'flavour-specific code inside a handler'),
    'C07-A3-1': ('overload resolution memoised on (name, argument types)', 'two calls with the same argument types of which only one is a shrinkable literal'),
    'C14-A3-2': ('unary +/- folded without the environment, hence without the word-size wrap', 'negation of INT_MIN (or of a wrapped constant) consumed by comparison or division'),
    'C10-A3-3': ('ArrayLiteral.cast returns self when already type-locked with the same element type', 'a cast literal used again where a different access mode is required'),
    'C16-A4-1': ('exit modes of try ignore the handler when the body shows no DEFEAT', 'try body defeating only through a call in an expression, handler falls through'),
    'C07-A4-2': ('typechecked declaration popped and re-inserted in env.funcs', 'a call that needs a coercion and fits several overloads, made after the first one was checked'),
    'C09-A4-3': ('right operand of op= coerced to the target type', 'byte target with an int right operand outside 0..255'),
    'C01-A5-1': ('volatile-operand snapshot only for State accesses', 'left operand is a byte/bool global or a register-held value and the right operand reassigns it'),
    'C05-A5-2': ('IntToByte keeps the full-word fast value', 'computed int `is byte` used as index/length with a value outside 0..255'),
    'C09-A5-3': ('load in front of the 0/1 normalisation of IntToBool removed', 'int-to-bool cast of a value not already in the output register'),
    'C05-A6-1': ('return protection becomes sticky between defeat functions', 'a non-preemptive defeat function generated after a preemptive one, returning under try'),
    'C01-A6-2': ('entry array length computed from the scalars seen so far', 'a scalar parameter after the array parameter of @is_you'),
    'C01-A6-3': ('already-emitted globals are looked up before locals', 'a local or parameter shadowing a global that was used earlier'),
    'C13-A7-1': ('constant array literals de-duplicated by their values only', 'two constant arrays with equal values and different element types in one program'),
    'C01-A7-2': ('source of src[idx] kept only when the index contains a call', 'string element of a string array indexed by a non-trivial call-free expression'),
    'C01-A7-3': ('a[i] op= e evaluates e before reading a[i]', 'e modifies a[i]'),
    'C02-A8-1': ('right operand of ?? parked on the frame only when the left operand is unsafe', 'computed right operand with a literal/variable left operand'),
    'C02-A8-2': ('inevitability test of preempt emitted only in defeat functions', 'preempt block in a you-function try body'),
    'C03-A8-3': ('try/stop without visible DEFEAT compiled as its bare body', 'defeat reached through a value-returning defeat call inside an expression'),
    'C02-A9-1': ('write_int_pos trampoline (with its halt guard) removed', 'write(int) of a non-negative number inside an undone/stopped try'),
    'C03-A9-2': ('zero-length pre-check of write_const_byte_array removed', 'an empty const byte array written'),
    'C18-A9-3': ('write loops compare addresses with signed hlt/hge (end pointer instead of counting a length down)', 'mutable global / argv byte array written while the stack is near its legal maximum, so the data lie above 2^(n-1)'),
    'C04-A10-1': ('DynamicValue.maps becomes one list shared by every instance', 'two deferred guard constants in one compilation (literal array live while a dynamic one is allocated)'),
    'C13-A10-2': ('_escape_bytes defaults to the double quote for character immediates too', "the characters ' and \" as character constants"),
    'C01-A10-3': ('ConcreteArrayType equality ignores R vs RW', 'a function specialised for a const view and for a mutable array of the same section, with overloads distinguishing them'),
    'C04-A11-1': ('Tracker.update returns early when the largest checkpoint already covers the depth', 'a deep temporary before a dynamic allocation, smaller checkpoints live'),
    'C08-A11-2': ('arrays released before a scalar tail call is evaluated', 'return f(g(local_array), ...)'),
    'C04-A11-3': ('create_new_stack_array updates the checkpoint before the frame size', 'literal array as deepest allocation, stack exactly full'),
    'C14-A12-1': ('driver passes the word size in bits to the typechecker', 'compiled through `python -m hidc`; a folded constant that wraps at the real word size'),
    'C10-A12-2': ('error renderer unpacks the context unconditionally', 'a diagnostic without source position (missing @is_you, file errors)'),
    'C13-A12-3': ('SourceCode.from_file expands tabs', 'a raw TAB inside a string or character literal of a source file'),
    # ---- round 4 (sub-agents focused on a language feature, free choice of property and place)
    'C01-F1-1': ('@is_you returns by a direct jump to the win loop instead of through its return-address slot', 'an explicit call of @is_you (recursion, or from another you-function)'),
    'C16-F1-2': ('calls named all_is_win/all_is_broken count as terminal whatever their arguments', 'a user-defined overload with parameters that returns, called as a statement'),
    'C02-F1-3': ('jump to the defeat handler emitted before the condition of !truth_is_defeat is evaluated', 'effectful bool condition (call, not/and of a call) in a try/stop body, defeat occurs'),
    'C07-F2-1': ('"redeclaration" test looks the name up among the globals', 'a global x, a local or parameter x, and a further declaration of x in the same function'),
    'C01-F2-2': ('parameter scopes of already generated functions are never popped', 'a global G, an earlier-generated function with a parameter G, a later function using the global'),
    'C01-F2-3': ('non-const array literals with constant elements become one static array', 'such a declaration executed twice with a write in between'),
    'C05-F3-1': ('the length guard is skipped for compile-time constant lengths', 'constant length whose byte size wraps: bool b[-1], string b[-32768], int b[5592406] at W=3'),
    'C01-F3-2': ('bool array literal accumulates the partial byte in r2 without spilling', 'two run-time elements in one group of 8, the later one clobbering r2'),
    'C14-F3-3': ('constant string indexed by a constant folded with Python indexing', 'negative constant index into a string literal / const string'),
    'C16-F4-1': ('LoopBlock.exit_modes restructured into early returns, zero-trip NONE lost', 'non-constant loop without break whose body always exits, placed last'),
    'C01-F4-2': ('loop back edge omitted when the body exits only by return/defeat', 'a continue in a loop body that otherwise ends in return'),
    'C14-F4-3': ('and/or folded when either operand is the absorbing constant', 'effectful left operand with a constant absorbing right operand'),
    'C01-F5-1': ('string -> byte[] conversion computes the origin before loading the length', 'string held in a register (local, parameter, element, call result)'),
    'C02-F5-2': ('try_fp saved once at function entry instead of at every try/stop', 'a you-function calling another you-function with its own try/stop before its own try, then defeated'),
    'C16-F5-3': ('terminal calls recognised by a name table', 'user overload with parameters of all_is_win / all_is_broken / !is_defeat'),
    'C04-F6-1': ('run-time array size computed with a shift by elsize >> 1', 'int/string dynamic array at W=3 (too small) or W=8 (too large)'),
    'C01-F6-2': ('word-sized store into byte/bool globals', 'computed value assigned to a byte/bool global followed by another global in memory'),
    'C14-F6-3': ('values of bit_length <= 16 skip the word-size wrap', 'folded constant of magnitude 32768..65535 at -m16 consumed by / % or a comparison'),
    'C05-F7-1': ('division guard moved to the expression case only', 'a[i] /= d or a[i] %= d with d == 0'),
    'C05-F7-2': ('length guard regrouped after the size computation (compares the size)', 'run-time length whose size wraps: int a[-32765], bool a[-3]'),
    'C04-F7-3': ('checkpoint update for static array literals removed', 'array literal as the deepest frame point, stack exactly full'),
    'C16-F8-1': ('ExitMode.replace returns self when the old mode is absent', 'non-constant loop whose body always returns'),
    'C07-F8-2': ('folded constants take shrinkability from their (coerced) operands', 'const int arithmetic used where a byte is required'),
    'C01-F8-3': ('terminal calls recognised by name (table without the () pattern)', 'user overload with parameters of a terminal builtin, called before further statements'),
    'C03-F9-1': ('return restores the real defeat handler before its value is evaluated', 'return !f(x) inside try/stop where !f is defeated'),
    'C16-F9-2': ('try exit modes ignore the handler unless the body shows DEFEAT', 'defeat only through calls inside expressions; handler leaves differently'),
    'C02-F9-3': ('K ?? e folded to K when e contains no call', 'constant left operand, call-free right operand that faults (index, division)'),
    'C10-F10-1': ('function bodies generated lazily inside gen_lines', 'CodeGenError raised while a function body is generated, through the command line: an empty output file stays behind'),
    'C10-F10-2': ('builtins get a span attribute of None', 'user function with exactly the signature of a builtin: the diagnostic cannot be rendered'),
    'C12-F10-3': ('from_file reads bytes and splits on LF only', 'lone CR line breaks in a file with a // comment'),
    'C14-F11-1': ('and/or with an absorbing constant on the right drop a call-free left operand', 'left operand that faults at run time (index out of range, division by zero)'),
    'C05-F11-2': ('constant index into constant string/array literal folded with Python indexing', 'constant index in -length..-1'),
    'C16-F11-3': ('zero-trip NONE added only when the body contains a break', 'non-constant loop without break whose body always returns'),
    'C05-F12-1': ('division guard moved to the expression case only', 'a[i] /= 0 on an array element'),
    'C09-F12-2': ('write(e is bool) pushes the int into the one-byte bool slot', 'non-zero value with a zero low byte cast to bool directly in the argument of write'),
    'C01-F12-3': ('string -> byte[] conversion loads the length after overwriting the register', 'string held in a local, parameter or call result'),
}

# seeded changes that the target check did NOT catch when first run, and what was added to the check afterwards
STRENGTHENED = {
    'C03-2': 'C02/C03 gained family R (value-returning you-functions returning `!val(x)` from inside a try) and value-returning defeat calls as try-body atoms',
    'C04-1': 'C04 family M gained the action "write the most negative integer as the deepest call" (C17 already caught it)',
    'C05-1': 'family P gained preempt placements in else / else-if / while / for / nested blocks (this also exposed genuine defect #10)',
    'C07-1': 'C07 overload family now declares the caller at every position among the overloads',
    'C09-1': 'C09 gained literal-operand programs (C14 already caught it)',
    'C09-2': 'C09 gained truthiness of `a is byte` in branch, loop, and/or and !truth_is_defeat positions',
    'C10-2': 'C10 gained global/local arrays with 18 constant length expressions',
    'C14-1': 'C14 depth-1 gained unary minus feeding / % < == >= and double negation',
    'C14-2': 'C14 gained 40 partly-constant, partly-effectful expressions compared with the reference interpreter',
    'C16-2': 'C16 quick gained 17 curated larger loop bodies (size-4 enumeration of the thorough tier also contains the shape)',
    'C18-1': 'C18 reproducibility seeds gained programs with mixed-type array literals and many tables',
    # ---- round 2
    'C01-3': 'C01 family S gained atoms with a shadowing local in blocks left by return/break/continue followed by uses of the global',
    'C01-4': 'C01 family F gained a program with overloads of different arity (C07 gained the ov3 family and caught it too)',
    'C03-3': 'C03 family K gained constant-true / constant-folded !truth_is_defeat shapes',
    'C03-4': 'C03 family K gained writes of empty const byte arrays (C17 already caught it)',
    'C04-3': 'C04 family M gained the action "index is a mutable global that the right-hand side reassigns"',
    'C05-3': 'C05 IDX gained the access "index computed and narrowed with is byte"; LEN gained the narrowed length',
    'C07-3': 'C07 rule programs gained loops whose body always returns (C16 already caught it)',
    'C08-4': 'C08 family X gained scopes where the allocation precedes a try in the loop body and the exit goes through the try',
    'C09-3': 'C09 gained comparisons deciding between a branch and defeat inside try/undo',
    'C10-3': 'C10 gained calls of 12 builtin-like names in 3 flavours and token alphabet entries print/@print/!println',
    'C10-4': 'C10 seeds gained programs whose only defeat machinery is a preempt block (C02 already caught it)',
    'C13-3': 'C13 gained strings reaching is byte[] / write through variables, parameters, calls and elements (C17 already caught it)',
    'C13-4': 'C13 gained equal-valued constant arrays of different element types in one program',
    'C14-3': 'C14 effects family and C05 IDXC gained compile-time constant indices',
    'C14-4': 'C14 effects family gained mutable constant literals evaluated repeatedly (C01 family S too)',
    'C16-3': 'C16 gained the atom "call of a user-defined overload of all_is_win/all_is_broken"',
    'C17-3': 'C17 gained writes inside tries that are undone or stopped (C02 gained string/int writes as try-body atoms)',
    'C18-3': 'not caught by C18 (a 16-bit run that wraps is outside clause (c) by definition); caught by C14',
    'C18-4': 'C18 lint clause now also runs every family-B body printed without statement markers',
    # ---- round 3
    'C06-A2-2': 'C06 operand formers gained a cast wrapper `((E is byte) is int)` around the flavoured operand',
    'C10-A3-3': 'C10 gained array literals with explicit casts in every role (mutable/const declaration, mutable/const argument, .length)',
    'C09-A4-3': 'C09 gained compound assignment on byte locals, byte array elements and byte globals with 13 (op, int constant) pairs over the operand grid',
    'C01-A5-1': 'C01 family S gained byte/bool operands whose right neighbour (setb) reassigns the byte and bool globals',
    'C09-A5-3': 'C09 gained the casts with the operand held in a mutable global (value not yet in the output register)',
    'C05-A6-1': 'family P gained non-preemptive defeat functions (!np, !nv) declared after the preemptive one and called in the try body',
    'C01-A7-2': 'C01 family S gained byte atoms indexing an element of a const string array with computed, call-free indices',
    'C01-A7-3': 'C01 family S gained `r[0] += bumpr(r)` and `GR[1] -= touchg()` (right-hand side modifies the element)',
    'C02-A8-1': 'family Q gained computed right operands `(x * 2)`, `(g - 2)`',
    'C02-A9-1': 'family T gained the atom `writeln(0 - x - 1)` / non-negative int writes inside undone tries',
    'C18-A9-3': 'C18 gained the bigstack items: two programs at the 13 largest legal stack sizes, and a stack one word too large must be refused',
    'C04-A10-1': 'C04 family M gained `litvla` (literal array live while a dynamic one is allocated); the runner now confirms history-dependent violations by re-running the work item in a fresh interpreter',
    'C01-A10-3': 'C01 family F gained const/mutable overloads (which/view/pass) called with local, global, const, dynamic and literal arrays',
    'C04-A11-1': 'C04 family M gained `deepvla` (a deeper call before the dynamic allocation)',
    'C08-A11-2': 'C08 family X gained `tailcall`/`tailcall2`: return of a call whose arguments read local arrays',
    'C14-A12-1': 'C14 gained the `cli` item (constant forms compiled through `python -m hidc -m<bits>` and executed); C10 gained driver/library byte parity',
    'C13-A12-3': 'C13 gained the `file` item (raw control and non-ASCII characters in literals of a source file compiled by the driver); C12 gained from_file comparison',
    # ---- round 4
    'C01-F1-1': 'C01 family F gained a program in which @is_you is called recursively and from another you-function',
    'C02-F1-3': 'family T gained the atom `!truth_is_defeat(chk(x))` whose condition prints and writes a global',
    'C01-F2-2': 'C01 family F (globals program) gained functions generated after a function whose parameter shadows the global they use',
    'C05-F3-1': 'C05 LEN gained the same lengths written as literals and const-variable expressions (compile-time rejection allowed iff the run-time would fault)',
    'C16-F4-1': 'C16 family B: the `for` compound is now a loop with a non-constant condition and no break of its own (the `while` compound always contained a break for progress); for(;;) moved to the curated bodies',
    'C01-F4-2': 'C01 family F gained search loops (`continue` on mismatch, `return` otherwise) over literal, dynamic and empty arrays (C16 already caught it)',
    'C02-F5-2': 'family H gained the shape "call another you-function with try/stop, and the function itself, before the own tries"',
    'C01-F8-3': 'C01 family F gained user overloads of all_is_win / all_is_broken called in the middle of a block (C16 already caught it)',
    'C02-F9-3': 'family Q gained constant left operands with call-free right operands that fault',
    'C10-F10-1': 'C10 command-line grid gained one program per CodeGenError class (7 more) and always includes sane option combinations for every program',
    'C14-F11-1': 'C14 effects family gained 18 expressions whose call-free operand faults next to an absorbing constant',
    'C05-F11-2': 'C05 gained family STRC: 9 constant sources x 23 constant indices in 3 spellings',
}


def table():
    rows = ['| id | change (one line) | needs, to manifest | pinned tests with change | detected by (quick tier) | not detected by |', '|---|---|---|---|---|---|']
    for f in sorted(glob.glob(os.path.join(ROOT, 'seeded', '*', 'meta.json'))):
        m = json.load(open(f))
        d = DESCR.get(m['id'], ('', ''))
        if d[0] and ((m.get('round') or 0) >= 3 or 'summary' not in m):
            m['summary'] = d[0]
            m['needs_to_manifest'] = d[1]
            json.dump(m, open(f, 'w'), indent=1)
        tests = (m.get('validation') or {}).get('pinned_tests_with_change', '?').split(' in ')[0]
        det = ', '.join(m.get('detected_by', [])) or '**none**'
        miss = ', '.join(c for c in m.get('missed_by', []) if c not in m.get('detected_by', []))
        if len(m.get('missed_by', [])) > 6:
            miss = f'{len(m["missed_by"])} checks'
        if m['id'] in STRENGTHENED:
            det += ' (missed at first: ' + STRENGTHENED[m['id']] + ')'
            if m.get('strengthened') != STRENGTHENED[m['id']]:
                m['strengthened'] = STRENGTHENED[m['id']]
                json.dump(m, open(f, 'w'), indent=1)
        rows.append(f"| {m['id']} | {m.get('summary', d[0])} | {m.get('needs_to_manifest', d[1])} | {tests} | {det} | {miss} |")
    return '\n'.join(rows)


def main():
    p = os.path.join(ROOT, 'DESIGN.md')
    s = open(p).read()
    a, b = '<!-- SEEDTABLE -->', '<!-- /SEEDTABLE -->'
    if a not in s:
        s = s.replace('SEEDTABLE', a + '\n' + b, 1)
    i, j = s.index(a), s.index(b)
    s = s[:i + len(a)] + '\n' + table() + '\n' + s[j:]
    open(p, 'w').write(s)
    print(table())


if __name__ == '__main__':
    main()
