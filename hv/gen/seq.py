"""Generators for the sequential-core families of C01 (DESIGN.md section 6, C01):
E (expressions x use positions), S (statement sequences and scoping),
F (functions), A (entry-point argument binding).

Every generator returns a deterministic list of *batches*; a batch is
(prog, argvs, tag) where prog is HiD-core and argvs a list of argument vectors.
"""
import itertools

from ..ref.core import INT, BYTE, BOOL, STRING, EMPTY, arr, block, ecall, call, var, lit, binop
from ..ref.parser import parse_program, parse_stmts, parse_expr

# ---------------------------------------------------------------------------
# Family E
# ---------------------------------------------------------------------------

E_PRELUDE = """
int g = 4;
int g2 = 0;
const int K = 5;
bool gt = true;
bool gt2 = false;
byte gb = 'A';
byte gb2 = 'z';
const int[] GA = [10, 20, 30];
int[] MA = [1, 2, 3];
int[] PA = [40, 50, 60];
bool[] MB = [false, true, false];
byte[] MY = ['p', 'q', 'r'];
const string[] SA = ["zero", "one!"];
string gs = "global";
string gs2 = "";
string[] MS = ["m0", "m1"];

string fs(int x) { write('F'); if (x > 0) { return "pos"; } return SA[0]; }
empty hs(string x) { write(x.length); write(x); }
empty hcb(const byte[] x) { write(x.length); write(x); }
int f(int x) { g += 1; write('f'); write(x); write(' '); return x * 2 + g; }
bool p(int x) { write('p'); g += 2; return x > 1; }
byte q(byte x) { write('q'); return x; }
byte setb(byte x) { gb = x; gt = not gt; write('s'); return x; }
empty h2(int x, int y) { write(x); write(','); write(y); }
empty hb(bool x) { write(x); }
empty hq(byte x) { write(x is int); }
"""

LOCALS = """
bool c = a > 0;
int[] arr = [a, 7, 9];
string s = "hey";
int v = 1;
string[] sl = ["l0", "loc1"];
"""
E_PARAMS = 'int a, byte b, int[] pa, const byte[] pcb, string ps, const string[] psa'
E_ARGS = 'a, b, PA, "pcb" is byte[], "param", SA'


def _leaves(reduced=False):
    if reduced:
        return {
            INT: ['a', 'g', 'f(a)', '3'],
            BYTE: ['b'],
            BOOL: ['c', 'p(a)'],
        }
    return {
        INT: ['a', 'g', 'K', '3', 'f(a)', 'arr[1]', 'GA[2]', 'MA[0]', 'arr.length', 's.length', 'pa[1]', 'ps.length', 'SA[1].length', 'fs(a).length', '(s is byte[]).length'],
        BYTE: ['b', 's[1]', 'gb', "'c'", 'q(b)', 'MY[1]', 'setb(b)', 'SA[1][s[1] - 100]', 'SA[0][(MB[1] is int) + 1]', 'SA[1][[2, 1][1]]', 'pcb[1]', 'ps[2]'],
        BOOL: ['c', 'true', 'gt', 'p(a)', 'MB[1]', '(setb(b) > 9)'],
    }


NONZERO = ['3', 'K', '(b + 1)']


def _ops(xs, reduced=False):
    """One application of every operator class over operand pools xs (dict type -> list of source strings).
    Returns dict type -> list."""
    out = {INT: [], BYTE: [], BOOL: []}
    num = xs[INT] + xs[BYTE]
    ar = ['-'] if reduced else ['-', '*', '+']
    for op in ar:
        for l in num:
            for r in num:
                out[INT].append(f'({l} {op} {r})')
    if not reduced:
        for op in ('/', '%'):
            for l in num:
                for r in NONZERO:
                    out[INT].append(f'({l} {op} {r})')
    for l in num:
        out[INT].append(f'(-{l})')
    if not reduced:
        for l in num:
            out[INT].append(f'(+{l})')      # unary plus is not the identity on a byte: it widens
    for l in xs[BYTE] + xs[BOOL]:
        out[INT].append(f'({l} is int)')
    for l in xs[INT] + ([] if reduced else xs[BOOL]):
        out[BYTE].append(f'({l} is byte)')
    for l in xs[INT] + ([] if reduced else xs[BYTE] + ['s', 'arr']):
        out[BOOL].append(f'({l} is bool)')
    cmps = ['<'] if reduced else ['<', '==', '>=']
    for op in cmps:
        for l in num:
            for r in num:
                out[BOOL].append(f'({l} {op} {r})')
    for op in (['and'] if reduced else ['and', 'or']):
        for l in xs[BOOL]:
            for r in xs[BOOL]:
                out[BOOL].append(f'({l} {op} {r})')
    if not reduced:
        for l in xs[BOOL]:
            for r in xs[BOOL]:
                out[BOOL].append(f'({l} == {r})')
        for l in xs[BOOL]:
            out[BOOL].append(f'(not {l})')
    return out


def expr_pool(tier):
    """Typed expression sources: all trees of depth <= 1 over the full alphabet, depth 2 with one side a
    depth-1 tree over the reduced alphabet and the other a reduced leaf (quick), or both sides depth-1
    reduced (thorough)."""
    full = _leaves()
    d1 = _ops(full)
    red = _leaves(True)
    d1r = _ops(red, True)
    pool = {t: list(full[t]) + d1[t] for t in (INT, BYTE, BOOL)}
    # depth 2: operands drawn from (reduced depth-1) x (reduced leaves), both orders
    mixed = {t: d1r[t] for t in (INT, BYTE, BOOL)}
    d2a = _ops_pair(mixed, red, True)
    d2b = _ops_pair(red, mixed, True)
    for t in (INT, BYTE, BOOL):
        pool[t] += d2a[t] + d2b[t]
    if tier == 'thorough':
        d2c = _ops_pair(mixed, mixed, True)
        for t in (INT, BYTE, BOOL):
            pool[t] += d2c[t]
        # depth 3 over the reduced alphabet: op(depth-2, leaf)
        d2 = {t: d2a[t][::3] for t in (INT, BYTE, BOOL)}
        d3 = _ops_pair(d2, red, True)
        for t in (INT, BYTE, BOOL):
            pool[t] += d3[t]
    # de-duplicate, keep order
    for t in pool:
        seen = set()
        pool[t] = [x for x in pool[t] if not (x in seen or seen.add(x))]
    return pool


def _ops_pair(ls, rs, reduced):
    out = {INT: [], BYTE: [], BOOL: []}
    lnum = ls[INT] + ls[BYTE]
    rnum = rs[INT] + rs[BYTE]
    for l in lnum:
        for r in rnum:
            out[INT].append(f'({l} - {r})')
            out[BOOL].append(f'({l} < {r})')
    for l in ls[BOOL]:
        for r in rs[BOOL]:
            out[BOOL].append(f'({l} and {r})')
            out[BOOL].append(f'({l} or {r})')
    for l in lnum:
        out[INT].append(f'(-{l})')
    for l in ls[INT]:
        out[BYTE].append(f'({l} is byte)')
        out[BOOL].append(f'({l} is bool)')
    for l in ls[BYTE] + ls[BOOL]:
        out[INT].append(f'({l} is int)')
    return out


POSITIONS = {
    INT: [
        'writeln({e});',
        'int w = {e}; writeln(w);',
        'g2 = {e}; writeln(g2);',
        'v += {e}; writeln(v);',
        'h2({e}, 1);',
        'h2(f(2), {e});',
        'int[] t = [{e}, 2]; writeln(t[0] + t[1]);',
        'writeln(GA[({e}) % 3]);',
        'arr[1] = {e}; writeln(arr[1]);',
        'MA[({e}) % 3] = {e}; writeln(MA[0] + MA[1] + MA[2]);',
        'int z[({e}) % 3 + 1]; writeln(z.length);',
        'byte nb = ({e}) is byte; writeln(nb is int);',
        'arr[2] -= {e}; writeln(arr[2]);',
        'g2 = 7; g2 *= {e}; writeln(g2);',
        'if (({e}) > 2) {{ write(\'T\'); }} else {{ write(\'F\'); }}',
    ],
    BOOL: [
        'writeln({e});',
        "if ({e}) {{ write('T'); }} else {{ write('F'); }}",
        'bool w = {e}; writeln(w);',
        'gt2 = {e}; writeln(gt2);',
        'hb({e});',
        'bool[] t = [{e}, true, {e}]; write(t[0]); write(t[1]); write(t[2]);',
        # element lookups and globals as elements of a packed literal, not first in their byte
        'bool[] t = [c, {e}, MB[1], gt, MB[2], {e}, MB[0], c, {e}, MB[1], gt2]; for (int k = 0; k < t.length; k += 1) {{ write(t[k] is int); }}',
        # packed storage: elements beyond the first byte, and a literal whose first byte holds only literal false,
        # built twice at the same address with writes in between
        'bool[] t = [true, false, true, false, c, false, true, false, {e}, false, {e}, true, false, false, false, false, c, {e}]; for (int k = 0; k < t.length; k += 1) {{ write(t[k] is int); }}',
        'for (int i = 0; i < 2; i += 1) {{ bool[] t = [false, false, false, false, false, false, false, false, {e}, true]; for (int k = 0; k < t.length; k += 1) {{ write(t[k] is int); }} t[0] = true; t[5] = true; t[8] = not t[8]; }}',
        'int n = 0; while ({e} and n < 2) {{ n += 1; }} writeln(n);',
        'MB[1] = {e}; write(MB[0]); write(MB[1]); write(MB[2]);',
        "for (int i = 0; i < 2 and {e}; i += 1) {{ write('i'); }}",
        'writeln(({e}) is int);',
    ],
    BYTE: [
        'write({e}); writeln(({e}) is int);',
        'byte w = {e}; writeln(w is int);',
        'gb2 = {e}; writeln(gb2 is int);',
        'hq({e});',
        "byte[] t = [{e}, 'x']; write(t);",
        'MY[1] = {e}; write(MY);',
        'int w = {e}; writeln(w);',
        'writeln({e} + 1);',
    ],
}
POSITIONS[STRING] = [
    'write({e}); writeln();',
    'string w = {e}; write(w); writeln(w.length);',
    'gs2 = {e}; write(gs2); write(gs2.length);',
    'MS[1] = {e}; write(MS[0]); write(MS[1]);',
    'string[] t = [{e}, "x"]; write(t[0]); write(t[1]); write(t[0].length);',
    'writeln(({e}).length);',
    'write(({e})[1]); write(({e})[({e}).length - 1]);',
    'write(({e}) is byte[]); const byte[] vw = ({e}) is byte[]; write(vw.length); write(vw[0]);',
    'hs({e});',
    'hcb({e});',
    'writeln(({e}) is bool);',
    "if (({e}).length > 3) {{ write('L'); }} else {{ write('S'); }}",
]
STRING_LEAVES = ['s', 'gs', 'SA[1]', 'MS[0]', 'fs(a)', '"lit"', 'ps', 'psa[1]', 'SA[(c is int)]', 'sl[1]']
RET_POS = {INT: 'int', BOOL: 'bool', BYTE: 'byte', STRING: 'string'}

E_ARGVS = [['0', '1'], ['7', '200'], ['-3', '255']]
E_BATCH = 20


def family_E(tier):
    pool = expr_pool(tier)
    cases = []   # (type, expr, position index)
    for t in (INT, BOOL, BYTE):
        for e in pool[t]:
            for pi in range(len(POSITIONS[t]) + 1):
                cases.append((t, e, pi))
    scases = [(STRING, e, pi) for e in STRING_LEAVES for pi in range(len(POSITIONS[STRING]) + 1)]
    if tier == 'quick':
        # quick: every expression in 3 positions chosen round-robin so that every position is hit equally often
        sel = []
        leaves = _leaves()
        for i, (t, e, pi) in enumerate(cases):
            npos = len(POSITIONS[t]) + 1
            ei = i // npos
            # every leaf (each access path to a value) is used in every position; deeper expressions in three of them
            if e in leaves[t] or (pi - ei) % npos in (0, npos // 3, 2 * npos // 3):
                sel.append((t, e, pi))
        cases = sel
    cases += scases
    batches = []
    for bi in range(0, len(cases), E_BATCH):
        batches.append(('E', cases[bi:bi + E_BATCH]))
    return batches


def build_E(chunk):
    """Build the HiD source text for one batch of E cases."""
    funcs = []
    calls = []
    for k, (t, e, pi) in enumerate(chunk):
        pos = POSITIONS[t]
        if pi < len(pos):
            body = LOCALS + pos[pi].format(e=e)
            funcs.append(f'empty c{k}({E_PARAMS}) {{ {body} }}')
            calls.append(f'write("#{k}:"); c{k}({E_ARGS}); writeln();')
        else:
            body = LOCALS + f'return {e};'
            funcs.append(f'{RET_POS[t]} c{k}({E_PARAMS}) {{ {body} }}')
            conv = ' is int' if t == BYTE else ''
            calls.append(f'write("#{k}:"); writeln(c{k}({E_ARGS}){conv});')
    src = E_PRELUDE + '\n'.join(funcs) + '\nempty @is_you(int a, byte b) {\n' + '\n'.join(calls) + '\n}\n'
    return src


# ---------------------------------------------------------------------------
# Family S: statement sequences and scoping
# ---------------------------------------------------------------------------

S_PRELUDE = """
int g = 3;
int[] GR = [4, 5, 6];
empty bump(int[] r) { r[0] += 10; r[2] = r[1]; }
int sum(const int[] r) { int t = 0; for (int i = 0; i < r.length; i += 1) { t += r[i]; } return t; }
empty swap(int p, int q) { int t = p; p = q; q = t; write(p); write(q); }
int rdg() { return g; }
int twice() { int[] q = [3, 4]; q[1] += 1; return q[1]; }
empty fillc(int[] q) { q[0] += 1; }
int bumpr(int[] q) { q[0] += 100; return 1; }
int touchg() { GR[1] = 50; return 2; }
int addg(int v) { g += v; return g; }
int revsum(const int[] q) { int t = 0; int left = q.length; while (left) { if (left != q.length) { t += 1; } left -= 1; t = t * 2 + q[left]; } return t; }
empty dump(int x, int y, const int[] r) {
    write(" x="); write(x); write(" y="); write(y); write(" g="); write(g);
    write(" r="); write(r[0]); write(','); write(r[1]); write(','); write(r[2]);
}
"""

S_ATOMS = [
    'x = x + 1;',
    'y += x;',
    'r[1] = x;',
    'r[(x % 3 + 3) % 3] += 2;',
    'if (x > 1) { y = 5; } else { x = 9; }',
    'while (x < 3) { x += 1; y -= 1; }',
    'for (int i = 0; i < 3; i += 1) { if (i == 1) { continue; } y += i; if (y > 6) { break; } }',
    '{ int x2 = x * 2; y = x2; }',
    '{ int g = 7; g += 1; y = g; }',
    '{ y = g; int g = 70; y += g; }',
    'bump(r);',
    'x = sum(r);',
    '{ int[] al = r; al[0] = x; y = al[2]; }',
    '{ int vv[(x % 3 + 3) % 3 + 1]; vv[0] = y; y = vv[0] + vv.length; }',
    'if (x == 2) { write("early"); dump(x, y, r); return; }',
    'swap(x, y);',
    'g = g + x;',
    'y = rdg() + sum(GR);',
    '{ int[] t2 = [x, y, g]; bump(t2); x = t2[0]; }',
    'for (int i = 0; i < 2; i += 1) { int[] in = [i, x]; r[i] = in[1] + i; }',
    'GR[1] = x; bump(GR);',
    'x = -x;',
    # a local that shadows a global inside a block that is left early; the global is used afterwards
    'if (x == 2) { int g = 70; write(g); dump(x, y, r); return; }',
    'for (int i = 0; i < 2; i += 1) { int g = 50 + i; y += g; if (i == 0) { continue; } break; }',
    'while (x < 3) { int g = x; x += 1; if (g == 1) { continue; } y += g; if (g == 2) { break; } }',
    'y += g;',
    # literals whose elements are all constant, modified and evaluated more than once
    'for (int i = 0; i < 2; i += 1) { int[] q = [1, 2]; q[0] += 5; y += q[0]; fillc(q); y += q[0]; }',
    'y = twice() + twice();',
    'r[0] += bumpr(r); GR[1] -= touchg(); y += GR[1];',
    'for (int i = 0; i < 2; i += 1) { bool[] bq = [true, false]; if (bq[1]) { y += 100; } bq[1] = true; byte[] yq = [\'a\', \'b\']; yq[0] += 1; y += yq[0]; }',
    # a value just stored is tested at a loop head that is also reached from the back edge
    '{ y += revsum(r); int left = sum(r) % 4; while (left) { left -= 1; y += left * 2 + r[left % 3]; } x = (x % 3 + 3) % 3 + 1; while (x) { x -= 1; y += 1; r[x] += y; } }',
    # x op= e reads x first: the right-hand side may change the global on the left
    'g += addg(2); y -= g; g *= addg(1); y += g;',
    # a const copy of a mutable local is a value of its own
    '{ const int cy = x; const int cz = y; x += 5; y = cy * 2 + cz; x += cy; }',
]

S_ARGVS = [['0'], ['2'], ['-5']]
S_BATCH = 16


def family_S(tier):
    n = len(S_ATOMS)
    seqs = [(i,) for i in range(n)] + [(i, j) for i in range(n) for j in range(n)]
    if tier == 'thorough':
        seqs += [(i, j, k) for i in range(n) for j in range(n) for k in range(n)]
    else:
        # quick: all pairs, plus triples over a reduced alphabet of the 7 most stateful atoms
        red = [3, 5, 6, 9, 12, 13, 18, 22, 23, 25]
        seqs += [(i, j, k) for i in red for j in red for k in red]
    return [('S', seqs[i:i + S_BATCH]) for i in range(0, len(seqs), S_BATCH)]


def build_S(chunk):
    funcs = []
    calls = []
    for k, seq in enumerate(chunk):
        body = 'int x = a; int y = 1; int[] r = [1, 2, 3];\n' + '\n'.join(S_ATOMS[i] for i in seq) + '\ndump(x, y, r);'
        funcs.append(f'empty c{k}(int a) {{ {body} }}')
        calls.append(f'write("#{k}:"); c{k}(a); writeln();')
    return S_PRELUDE + '\n'.join(funcs) + '\nempty @is_you(int a) {\n' + '\n'.join(calls) + '\n}\n'


# ---------------------------------------------------------------------------
# Family F: functions
# ---------------------------------------------------------------------------

F_PROGRAMS = [
    # overloads of different arity, shorter one first; calls that need a coercion must still respect the argument count
    ("""
int area(int s) { return s * s; }
int area(int w, int h) { return w * h; }
empty log(string m) { write("tick "); write(m); }
empty log(const byte[] d, string sep) { write(d); write(sep); }
empty log() { write("nothing"); }
int cnt(const int[] a) { return a.length; }
int cnt(const int[] a, int from) { return a.length - from; }
empty @is_you(int n, byte b) {
    int[] m = [1, 2, 3]; byte[] data = ['d', 'a'];
    log(); writeln(+b); writeln(-b); writeln(area(+b)); writeln(area(b)); writeln(area(b, 7)); writeln(area(n, b)); writeln(area(7)); writeln(area(b + 1, b));
    log("m"); log(data, ", "); log("s" is byte[], "!"); log(); log(['x', b], "?"); writeln();
    writeln(cnt(m)); writeln(cnt(m, b)); writeln(cnt([n, b], 1)); writeln(cnt([b]));
}""", [['3', '6'], ['-2', '255']]),
    # overloads: exact match first, else first declared coercible
    ("""
empty o(int x) { write("int"); }
empty o(byte x) { write("byte"); }
empty o(bool x) { write("bool"); }
empty o(string x) { write("string"); }
empty o(const byte[] x) { write("cbytes"); }
empty o(const int[] x) { write("cints"); }
empty o(int[] x) { write("ints"); }
empty o2(const int[] x) { write("cints"); }
empty o3(byte x) { write("byte"); }
empty o3(int x) { write("int"); }
empty o4(const byte[] x) { write("cbytes"); }
empty o5(int x, byte y) { write("ib"); }
empty o5(byte x, int y) { write("bi"); }
empty o5(int x, int y) { write("ii"); }
empty @is_you(int a, byte b) {
    int[] m = [1, 2]; const int[] k = [3]; string s = "s";
    o(a); o(b); o(a > 0); o(s); o(1); o('c'); o(b + 1); o(m); o(k); o([1, 2]); o(["a"][0]); o(s is byte[]); o(+b); o(-b); o(+'c'); o(+a); o3(+b);
    writeln();
    o2(m); o2(k); o2([a]); o3(5); o3(b); o3(a); o3('x'); o3(b + b); o4(s); o4("lit"); o4(['a', 'b']);
    writeln();
    o5(1, 2); o5(a, b); o5(b, a); o5(a, a); o5(b, 1); o5('c', 'd');
    writeln();
}""", [['1', '2']]),
    # recursion with value and array parameters; mutual recursion
    ("""
int fact(int n) { if (n <= 1) { return 1; } return n * fact(n - 1); }
int fib(int n) { if (n < 2) { return n; } return fib(n - 1) + fib(n - 2); }
bool even(int n) { if (n == 0) { return true; } return odd(n - 1); }
bool odd(int n) { if (n == 0) { return false; } return even(n - 1); }
empty fill(int[] a, int i) { if (i >= a.length) { return; } a[i] = i * i; fill(a, i + 1); }
int total(const int[] a, int i) { if (i >= a.length) { return 0; } return a[i] + total(a, i + 1); }
int depth(int n) { int[] loc = [n, n + 1]; if (n == 0) { return loc[1]; } int r = depth(n - 1); return r + loc[0]; }
empty @is_you(int n) {
    writeln(fact(n)); writeln(fib(n)); writeln(even(n)); writeln(odd(n));
    int a[n + 1]; fill(a, 0); writeln(total(a, 0)); writeln(depth(n));
}""", [['0'], ['1'], ['2'], ['3'], ['4']]),
    # return types and nested calls as arguments
    ("""
byte rb(int x) { return x is byte; }
bool rbo(int x) { return x > 2; }
string rs(int x) { if (x > 1) { return "big"; } return "small"; }
int ri(byte b) { return b + 1; }
int add3(int x, int y, int z) { write(x); write(y); write(z); return x + y + z; }
empty @is_you(int n) {
    writeln(rb(n + 254) is int); writeln(rbo(n)); writeln(rs(n)); writeln(ri(rb(n)));
    writeln(add3(ri(rb(n)), add3(n, n, n), rs(n).length));
    writeln(rs(add3(1, n, 1))[0] is int);
    const int[] lit = [add3(n, 0, 0), ri('a')]; writeln(lit[0] + lit[1]);
}""", [['0'], ['2'], ['5']]),
    # const/mutable array coercion into const parameters: three storage classes RC / R / RW
    ("""
const int[] GC = [7, 8, 9];
int[] GM = [1, 2, 3];
int s3(const int[] a) { int t = 0; for (int i = 0; i < a.length; i += 1) { t = t * 10 + a[i]; } return t; }
empty inc(int[] a) { for (int i = 0; i < a.length; i += 1) { a[i] += 1; } }
int both(const int[] a, int[] b) { inc(b); return s3(a) + s3(b); }
empty wb(const byte[] s) { write(s); write(s.length); }
empty which(int[] a) { write("mut"); a[0] += 0; }
empty which(const int[] a) { write("const"); }
empty view(const int[] v) { which(v); write(v[0]); }
empty pass(int[] v) { which(v); view(v); }
empty @is_you(int n) {
    int[] lm = [n, 2, 3]; const int[] lc = [n, 5, 6]; int vl[2]; vl[0] = n; vl[1] = 4;
    which(lm); view(lm); which(GC); view(GC); which(lc); view(lc); which(vl); view(vl); which(GM); view(GM); pass(lm); pass(GM); pass(vl); which([n, 1]); view([n, 1]); writeln();
    writeln(s3(GC)); writeln(s3(GM)); writeln(s3(lm)); writeln(s3(lc)); writeln(s3(vl)); writeln(s3([n, n]));
    inc(GM); inc(lm); inc(vl); writeln(s3(GM)); writeln(s3(lm)); writeln(s3(vl));
    writeln(both(lm, lm)); writeln(both(GC, GM)); writeln(both(lc, vl)); writeln(s3(lm));
    byte[] mb = ['h', 'i']; const byte[] cb = ['y', 'o']; string st = "str";
    wb(mb); wb(cb); wb(st); wb("lit"); wb(st is byte[]); wb(['a', n is byte]); writeln();
}""", [['1'], ['-4']]),
    # globals materialised lazily, shadowing, by-value scalars
    ("""
int a = 1; int b = a + 1; const int c = b * 3; byte gb = 200; bool gf = false; string gs = "glob";
int z1[3]; bool zb[10]; byte zy[2]; string zs[2]; bool zbig[2200]; byte ybig[700];
empty touch(int a) { a += 100; b += a; }
int shadow() { int a = 50; { int b = a + 1; a = b; } return a + b; }
byte[] buf = ['.', '.', '.', '.', '.', '.']; int pos = 0; int[] ibuf = [0, 0, 0, 0];
byte nxt() { pos += 1; return (96 + pos) is byte; }
int inx() { pos += 1; return pos * 11; }
int peek() { a += 1; return a * 2 + b; }
int peek2(int b) { return a + b + c; }
int find(const int[] h, int v) { for (int i = 0; i < h.length; i += 1) { if (h[i] != v) { continue; } return i; } return -1; }
int firstpos(const int[] h) { int i = -1; while (i < h.length - 1) { i += 1; if (h[i] <= 0) { continue; } return h[i]; } return 0; }
empty @is_you(int n) {
    writeln(a); writeln(b); writeln(c); writeln(gb is int); writeln(gf); writeln(gs);
    touch(n); writeln(a); writeln(b); writeln(shadow()); writeln(peek()); writeln(peek2(n)); writeln(peek()); writeln(a);
    int hi = (n - n + 2) * 1024; zbig[0] = false; zbig[7] = false; zbig[hi - 2048 + 8] = false; zbig[hi] = true; zbig[hi - 1] = false; zbig[hi + 151] = true; zbig[255] = false; zbig[256] = true;
    writeln(zbig[0]); writeln(zbig[7]); writeln(zbig[8]); writeln(zbig[hi]); writeln(zbig[hi - 1]); writeln(zbig[hi + 151]); writeln(zbig[255]); writeln(zbig[256]); writeln(zbig.length);
    ybig[0] = 'p'; ybig[hi / 4] = 'q'; ybig[hi / 4 + 187] = 'r'; ybig[255] = 's'; ybig[256] = 't'; write(ybig[0]); write(ybig[512]); write(ybig[699]); write(ybig[255]); writeln(ybig[256]);
    buf[pos] = nxt(); buf[pos] = nxt(); buf[pos] += nxt(); buf[pos + 1] = nxt(); writeln(buf); pos = 0; ibuf[pos] = inx(); ibuf[pos] += inx(); ibuf[pos] = inx() + ibuf[pos - 1];
    writeln(ibuf[0]); writeln(ibuf[1]); writeln(ibuf[2]); writeln(pos);
    writeln(find([4, n, 7, 9], 7)); writeln(find([n, 2], n)); writeln(find([1, 2], 5)); int ze[0]; writeln(find(ze, 1)); writeln(firstpos([0, -1, n, 5])); writeln(firstpos(ze)); writeln(firstpos([0 - n, 0]));
    z1[0] = 2; z1[1] = n; z1[2] = 5; zb[8] = false; zb[9] = true; int k8 = z1[0] * 4; zb[0] = false; zb[k8] = true; zb[k8 + 1] = false; zb[k8 - 1] = true; writeln(zb[k8]); writeln(zb[9]); writeln(zb[7]); writeln(zb[0]); zb[9] = true; zb[8] = false; zy[1] = 'k'; zs[0] = gs; zs[1] = "x";
    writeln(z1[0] + z1[1] + z1[2]); writeln(zb[9]); writeln(zb[8]); write(zy[1]); writeln(zs[0]); writeln(zs[1].length);
    gb = 300 - 45; writeln(gb is int); gs = "new"; writeln(gs); gf = not gf; writeln(gf);
}""", [['0'], ['9']]),
    # the entry point is an ordinary you-function: it can be called again, recursively and from another you-function,
    # and every activation returns to its caller
    ("""
int calls = 0;
empty all_is_win(int score) { write("score "); writeln(score); }
empty all_is_broken(string why, bool fatal) { write(why); writeln(fatal); }
int half_up(int v) { all_is_broken("halving ", false); all_is_win(v); return (v + 1) / 2; }
const int[] CX = [9, 8, 7];
empty @again(const int[] xs, byte b, int n) {
    if (b != 'z') { @is_you(n - 1, CX, 'z'); } else if (n == 0) { @is_you(0 - 1, [n, 4], 'y'); }
    write("back "); writeln(xs.length);
}
empty @is_you(int n, const int[] xs, byte tag) {
    calls += 1; int[] loc = [n, calls, 7];
    all_is_win(calls); writeln(half_up(n + 4)); sleep(calls * 300); debug(); progress(); sleep((n + 40) % 7);
    write(tag); write(' '); write(n); write(' '); write(xs.length); for (int k = 0; k < xs.length; k += 1) { write(':'); write(xs[k]); } writeln();
    if (n > 0) { @is_you(n - 1, xs, tag); }
    @again(xs, tag, n);
    write("done "); write(loc[0]); write(loc[1]); writeln(loc[2]);
}""", [['2', '65'], ['0', '10', '20', '66'], ['3', '5', '122']]),
]


def family_F(tier):
    return [('F', i) for i in range(len(F_PROGRAMS))]



# ---------------------------------------------------------------------------
# Family O: the same functions called (hence generated) in every order -- nothing the code generator remembers from
# one function may influence the next
# ---------------------------------------------------------------------------

O_PRELUDE = """
int g = 3; byte gb = 'a'; bool go = false; string gs = "gs"; const int[] CG = [5, 6]; int[] MG = [7, 8, 9];
"""
O_FUNCS = [
    ("int sh(int g) { g += 1; int gb = g * 2; return gb; }", "writeln(sh(n));"),
    ("int useg() { g += 10; gb += 1; return g + gb; }", "writeln(useg());"),
    ("int loc() { int[] t = [1, 2, 3]; t[1] += g; t[0] += 1; return t[0] + t[1] + t.length; }", "writeln(loc()); writeln(loc());"),
    ("byte by(byte b) { gb = b + 1; return gb; }", "writeln(by('x') is int);"),
    ("string st(string s) { gs = s; return gs; }", 'write(st("new")); writeln(gs.length);'),
    ("int cv(const int[] a) { return a.length * 10 + a[0]; }", "int[] lm = [n, 1, 2]; writeln(cv(CG)); writeln(cv(lm)); writeln(cv(MG)); writeln(cv([n]));"),
    ("int vl(int n) { int a[n + 1]; a[n] = n; bool b[n + 9]; b[n + 8] = true; return a[n] + a.length + b.length; }", "writeln(vl(n));"),
    ("bool ob(bool go) { return not go; }", "go = ob(go); writeln(go);"),
    ("int rc(int d) { if (d <= 0) { return g; } int[] k = [d]; return rc(d - 1) + k[0]; }", "writeln(rc(n));"),
    ("empty mu(int[] a, byte[] y) { a[0] += 1; y[0] += 1; }", "byte[] ly = ['p']; mu(MG, ly); writeln(MG[0]); write(ly); int[] l2 = [n]; mu(l2, ly); writeln(l2[0]);"),
]
O_ARGVS = [['2'], ['0']]
O_BATCH = 12


def family_O(tier):
    k = 6 if tier == 'thorough' else 4
    n = len(O_FUNCS)
    perms = []
    for combo in itertools.combinations(range(n), k):
        if tier == 'quick' and sum(combo) % 10 != 3:
            continue            # quick: every 10th 4-subset, all of its orders
        perms.extend(itertools.permutations(combo))
    if tier == 'thorough':
        perms = perms[::7]
    # every ordered pair adjacent at least once, both at the beginning of the program
    pairs = [(i, j) for i in range(n) for j in range(n) if i != j]
    perms = pairs + perms
    return [('O', perms[i:i + O_BATCH]) for i in range(0, len(perms), O_BATCH)]


def build_O(order):
    decls = '\n'.join(O_FUNCS[i][0] for i in sorted(order))
    calls = ' '.join(O_FUNCS[i][1].replace('lm', f'lm{j}').replace('ly', f'ly{j}').replace('l2', f'l2{j}') for j, i in enumerate(order))
    again = ' '.join(O_FUNCS[i][1].replace('lm', f'lq{j}').replace('ly', f'lr{j}').replace('l2', f'lt{j}') for j, i in enumerate(order[:2]))
    return O_PRELUDE + decls + f'\nempty @is_you(int n) {{ {calls} {again} writeln(g); }}\n'

# ---------------------------------------------------------------------------
# Family A: entry binding
# ---------------------------------------------------------------------------

A_TYPES = ['int', 'byte', 'string', 'int[]', 'const int[]', 'byte[]', 'const byte[]', 'const string[]']


def _a_print(t, n):
    if t == 'int':
        return f'write("{n}="); writeln({n});'
    if t == 'byte':
        return f'write("{n}="); writeln({n} is int);'
    if t == 'string':
        return f'write("{n}="); write({n}.length); write(\':\'); writeln({n});'
    if t.endswith('string[]'):
        return (f'write("{n}#"); writeln({n}.length); for (int i = 0; i < {n}.length; i += 1) '
                f'{{ write({n}[i].length); write(\':\'); writeln({n}[i]); }}')
    conv = ' is int' if 'byte' in t else ''
    return (f'write("{n}#"); writeln({n}.length); for (int i = 0; i < {n}.length; i += 1) '
            f'{{ writeln({n}[i]{conv}); }}')


def _a_values(t, W):
    bits = 8 * W
    if t == 'int':
        return [str(v) for v in (-(1 << (bits - 1)), -1, 0, 1, 255, 256, (1 << (bits - 1)) - 1)]
    if t == 'byte':
        return ['0', '1', '127', '128', '255']
    return ['', 'a', 'héllo w', '-12']


def family_A(tier):
    sigs = []
    for n in (0, 1, 2, 3):
        for combo in itertools.product(A_TYPES, repeat=n):
            if sum(1 for t in combo if t.endswith('[]')) <= 1:
                sigs.append(combo)
    if tier == 'quick':
        sigs = [s for s in sigs if len(s) <= 2] + [s for i, s in enumerate(sigs) if len(s) == 3 and i % 7 == 0]
    return [('A', sigs[i:i + 6]) for i in range(0, len(sigs), 6)]


def build_A(sig):
    names = [f'p{i}' for i in range(len(sig))]
    params = ', '.join(f'{t} {n}' for t, n in zip(sig, names))
    body = '\n'.join(_a_print(t, n) for t, n in zip(sig, names))
    return f'empty @is_you({params}) {{\n{body}\n}}\n'


def argvs_A(sig, W):
    """Argument vectors: boundary values for scalars (each position takes each boundary while others are
    held at their first value), variadic part empty / one / three elements."""
    scalars = [i for i, t in enumerate(sig) if not t.endswith('[]')]
    arrs = [i for i, t in enumerate(sig) if t.endswith('[]')]
    base = {}
    for i in scalars:
        base[i] = _a_values(sig[i], W)[0]
    variants = [dict(base)]
    for i in scalars:
        for v in _a_values(sig[i], W)[1:]:
            d = dict(base)
            d[i] = v
            variants.append(d)
    out = []
    if arrs:
        ai = arrs[0]
        el = sig[ai].replace('const ', '').replace('[]', '')
        vals = _a_values(el, W)
        groups = [[], [vals[1]], [vals[0], vals[-1], vals[2 % len(vals)]]]
    else:
        groups = [None]
    for d in variants:
        for g in groups:
            argv = []
            for i in range(len(sig)):
                if i in d:
                    argv.append(d[i])
                else:
                    argv.extend(g)
            out.append(argv)
    # de-duplicate
    seen = set()
    res = []
    for a in out:
        k = tuple(a)
        if k not in seen:
            seen.add(k)
            res.append(a)
    return res
