"""Family V: the example programs shipped with the compiler and every single-token variation of them that is still
a well-typed program -- programs of realistic size and shape (several functions, loops around tries, arrays passed
around, recursion, entry-point arguments), in the neighbourhood of what users write.

A variation replaces one token: an integer literal n by n+1 / n-1 / 0 / 2n, a comparison or arithmetic operator by its
neighbour, `and`/`or`, `undo`/`stop`, `break`/`continue`, `true`/`false`, or removes one `not`.  The reference typer
decides whether the variant is a program at all (otherwise it is skipped and counted); the reference interpreter
supplies its meaning; variants that leave the model (reads of uninitialised elements, interpreter budget) are skipped
and counted."""
import glob
import os

from .. import hid
from ..ref import lexer as rlex

SWAPS = {'<': ['<='], '<=': ['<'], '>': ['>='], '>=': ['>'], '==': ['!='], '!=': ['=='], '+': ['-'], '-': ['+'], '*': ['+'],
         '+=': ['-='], '-=': ['+='], '*=': ['+='], '/': ['%'], '%': ['/'], 'and': ['or'], 'or': ['and'], 'undo': ['stop'], 'stop': ['undo'],
         'break': ['continue'], 'continue': ['break'], 'true': ['false'], 'false': ['true'], 'not': ['']}

# inputs per example (the entry points take different parameter lists)
ARGS = {
    'decimal': [['1', '3'], ['22', '7'], ['-1', '8'], ['5', '0'], ['0', '5'], ['100', '-3']],
    'factor': [['15'], ['7'], ['12'], ['1'], ['0'], ['9'], ['64']],
    'hello': [[]],
    'max': [['3', '9', '2'], ['5'], [], ['-4', '-9']],
    'mergesort': [['3', '1', '2'], ['5', '4', '3', '2', '1'], [], ['7'], ['2', '2', '1', '2']],
    'optional_max': [['3', '9', '2'], [], ['-1'], ['4', '4']],
    'ouroboros': [[]],
}


def examples():
    out = []
    for f in sorted(glob.glob(os.path.join(hid.REPO, 'examples', '*.hid'))):
        name = os.path.basename(f)[:-4]
        if name in ARGS:
            out.append((name, open(f, encoding='utf-8').read()))
    return out


def edits(text):
    """-> list of (description, new_text) for every single-token variation."""
    toks = rlex.tokenize(text)
    lines = text.split('\n')
    out = []

    def replace(tok, new):
        (l0, c0), (l1, c1) = tok[2], tok[3]
        if l0 != l1:
            return None
        ls = list(lines)
        ls[l0] = ls[l0][:c0] + new + ls[l0][c1:]
        return '\n'.join(ls)
    for k, t in enumerate(toks):
        kind, val = t[0], t[1]
        old = lines[t[2][0]][t[2][1]:t[3][1]]
        news = []
        if kind == 'int':
            news = [str(v) for v in dict.fromkeys([val + 1, val - 1, 0, val * 2]) if v >= 0 and v != val]
        elif kind in ('sym', 'kw') and old in SWAPS:
            # a leading minus/plus (unary) is left alone: only binary uses are swapped
            if old in '+-' and (k == 0 or toks[k - 1][0] in ('sym', 'kw') and lines[toks[k - 1][2][0]][toks[k - 1][2][1]:toks[k - 1][3][1]] not in (')', ']')):
                continue
            news = SWAPS[old]
        elif kind == 'bool':
            news = SWAPS[old]
        for n in news:
            nt = replace(t, n)
            if nt is not None:
                out.append((f'{t[2][0] + 1}:{t[2][1] + 1} `{old}` -> `{n}`', nt))
    return out


def family_V(tier):
    """Work items: (example name, list of variant indices, number of inputs) over the list [original] + edits."""
    out = []
    for name, src in examples():
        n = 1 + len(edits(src))
        idx = list(range(n))
        for lo in range(0, n, 6):
            out.append(('V', (name, idx[lo:lo + 6], len(ARGS[name]))))
    return out


def variants(name, idx):
    src = dict(examples())[name]
    allv = [('original', src)] + edits(src)
    return [allv[i] for i in idx]
