"""Families added in response to round 8 of the seeded changes (good-faith optimisations that are wrong in a corner).

CHAIN  one run-time operand combined with TWO compile-time constants:  x op1 K1 op2 K2  in four shapes, op1 arithmetic,
       op2 arithmetic or comparison.  Algebraic re-association of the two constants (x + K1 < K2  ->  x < K2 - K1,
       x / A / B -> x / (A*B), x * A * B -> x * (A*B)) is only valid when nothing wraps; the constants and the values of x sit
       on both sides of every wrap.  No divisor is zero, so a correct program never faults.
GIDX   an element access whose index is held in a place that the same statement changes (a mutable global moved by a call
       on the right-hand side, a cell of another array written through a reference): a bounds check may not be reused.
LENL   a dynamic array whose length is the .length of a much longer array of narrower elements, so that only the
       multiplication by the element size wraps.
"""

ARITH = ['+', '-', '*', '/', '%']
CMP = ['<', '<=', '>', '>=', '==', '!=']


def consts(W, tier='quick'):
    bits = 8 * W
    mx = (1 << (bits - 1)) - 1
    h = 1 << (bits // 2)
    ks = [1, 2, 3, 7, -1, -2, 255, 256, 257, 300, -256, h, h + 1, 1 << (bits - 2), mx, mx - 1, -mx - 1, -mx, 10]
    out = []
    for k in ks:
        if k not in out:
            out.append(k)
    return out


def xs(W):
    bits = 8 * W
    mx = (1 << (bits - 1)) - 1
    h = 1 << (bits // 2)
    vals = [-mx - 1, -mx, -h - 1, -h, -257, -256, -255, -2, -1, 0, 1, 2, 9, 255, 256, 257, h - 1, h, h + 1, (mx // 4) * 3 + 1, mx - 256, mx - 1, mx]
    out = []
    for v in vals:
        if v not in out:
            out.append(v)
    return out


def lit(k):
    if k >= 0:
        return str(k)
    return f'(-{-k - 1} - 1)' if -k in (1 << 15, 1 << 23, 1 << 31, 1 << 63) else f'(-{-k})'


FORMS = ['x {o1} {k1} {o2} {k2}', '{k1} {o1} x {o2} {k2}', '{k2} {o2} (x {o1} {k1})', '({k1} {o1} x) {o2} {k2}', 'x {o1} KA {o2} KB']


def chain_program(form, o1, k1, W, ops2=None):
    """One program per (shape, op1, K1): every op2 x K2."""
    ks = consts(W)
    hdr = f'const int KA = {lit(k1)};\n'
    body = []
    for o2 in (ops2 or (ARITH + CMP)):
        for k2 in ks:
            e = FORMS[form].format(o1=o1, o2=o2, k1=lit(k1), k2=lit(k2) if form != 4 else 'KB')
            if form == 4:
                # const variables: one program-level KB would fix K2; use a block-local const instead
                body.append(f'{{ const int KB = {lit(k2)}; writeln({e}); }}')
            else:
                body.append(f'writeln({e});')
    return hdr + 'empty @is_you(int x) {\n' + '\n'.join(body) + '\n}\n'


def chain_items(W, tier):
    ks = consts(W)
    if tier == 'quick':
        ks = [k for k in ks if k in (1, 2, -1, 256, 300, 1 << (4 * W), (1 << (8 * W - 1)) - 1, -(1 << (8 * W - 1)))]
    out = []
    for form in range(len(FORMS)):
        for o1 in ARITH:
            for k1 in ks:
                if o1 in '/%' and form in (0, 4) and k1 == 0:
                    continue
                out.append((form, o1, k1))
    return out


def divides_by_x(form, o1):
    """shapes in which x itself is a divisor (then x = 0 faults, legitimately)"""
    return o1 in '/%' and form in (1, 3)


# ---------------------------------------------------------------------------------------------------------------------
GIDX_PROGS = [
    # the right-hand side moves the global index, then reads "the same" element again
    "int g = 0;\nbool mv(int n) { g += n; return true; }\n"
    "empty @is_you(int n) { int[] a = [11, 22, 33]; g = 1; write('<'); a[g] = (mv(n) and a[g] == 22) is int; write('>'); write(g); for (int k = 0; k < a.length; k += 1) { write(','); write(a[k]); } }",
    "int g = 0;\nint mv(int n) { g += n; return 1; }\n"
    "empty @is_you(int n) { int[] a = [11, 22, 33]; g = 1; write('<'); a[g] += mv(n) + a[g]; write('>'); write(g); for (int k = 0; k < a.length; k += 1) { write(','); write(a[k]); } }",
    "int g = 0;\nint mv(int n) { g += n; return 1; }\n"
    "empty @is_you(int n) { int[] a = [11, 22, 33]; g = 1; write('<'); a[g] = a[g] + mv(n) + a[g]; write('>'); write(g); for (int k = 0; k < a.length; k += 1) { write(','); write(a[k]); } }",
    "int g = 0;\nint mv(int n) { g += n; return 1; }\n"
    "empty @is_you(int n) { byte[] a = ['a', 'b', 'c']; g = 1; write('<'); a[g] = (a[g] + mv(n) * 0 + a[g] * 0) is byte; write('>'); write(g); write(a); }",
    "int g = 0;\nint mv(int n) { g += n; return 1; }\n"
    "empty @is_you(int n) { string[] a = [\"p\", \"qq\", \"rrr\"]; g = 1; write('<'); write(a[g]); write(mv(n)); write(a[g]); write('>'); write(a[g].length + mv(0 - n) + a[g].length); }",
    "int g = 0;\nint mv(int n) { g += n; return 1; }\nint[] a = [11, 22, 33];\n"
    "empty @is_you(int n) { g = 1; write('<'); write(a[g] + mv(n) + a[g]); write('>'); a[g] = 5; write(a[1]); }",
    # the index is a cell of another array, written through a reference by the callee
    "bool mvx(int[] ix, int n) { ix[0] += n; return true; }\n"
    "empty @is_you(int n) { int[] a = [11, 22, 33]; int[] ix = [1]; write('<'); a[ix[0]] = (mvx(ix, n) and a[ix[0]] == 22) is int; write('>'); write(ix[0]); for (int k = 0; k < a.length; k += 1) { write(','); write(a[k]); } }",
    # the index does not move but the array it indexes is a different one of the same name in another function
    "int g = 0;\nint mv(int n) { g += n; return 1; }\nint rd(const int[] a) { return a[g]; }\n"
    "empty @is_you(int n) { int[] a = [11, 22, 33]; g = 1; write('<'); a[g] = rd([1, 2, 3, 4, 5, 6, 7]) + mv(n) + rd(a); write('>'); write(a[1]); }",
    # bool element (packed): the bit index moves
    "int g = 0;\nbool mv(int n) { g += n; return true; }\n"
    "empty @is_you(int n) { bool[] a = [true, false, true, true, false, true, false, false, true, true]; g = 1; write('<'); a[g] = mv(n) and a[g]; write('>'); write(g); for (int k = 0; k < a.length; k += 1) { write(a[k] is int); } }",
    # the global is the loop counter; the body's call moves it
    "int g = 0;\nint mv(int n) { g += n; return 0; }\n"
    "empty @is_you(int n) { int[] a = [11, 22, 33]; write('<'); for (g = 0; g < a.length; g += 1) { a[g] = a[g] + mv(n) + a[g]; write('.'); } write('>'); for (int k = 0; k < a.length; k += 1) { write(','); write(a[k]); } }",
]
GIDX_INPUTS = [0, 1, 2, 3, -1, -2, -3, 255, 256, -256, 7]


# ---------------------------------------------------------------------------------------------------------------------
def lenl_programs(W):
    """-> list of (tag, src): the new array must not fit (stack 64 words): '<' then stack_overflow."""
    if W < 3:
        # at 16 bits (max length 32767) x (element size 2) never wraps: the honest outcome is also an overflow
        return [(f'int copy[{src}.length] of {el} {src}[{n}]', f"{el} big[{n}];\nempty @is_you(int i) {{ int canary = 7; write('<'); int copy[big.length]; write('>'); copy[i] = 0 - 1; write(canary); }}\n")
                for el, n, src in (('bool', 32767, 'big'), ('byte', 32767, 'big'), ('bool', 16385, 'big'))]
    if W > 3:
        return []
    out = []
    full = 1 << (8 * W)
    for el in ('bool', 'byte'):
        for dest, sz in (('int', W), ('string', 2 * W)):
            for d in (1, 2, 40):
                n = full // sz + d
                decl = f'{el} big[{n}];\n'
                tail = " write('>'); copy[i] = {v}; write(canary); }}\n".format(v='0 - 1' if dest == 'int' else '"s"')
                out.append((f'{dest} copy[big.length], {el} big[{n}]', decl + f"empty @is_you(int i) {{ int canary = 7; write('<'); {dest} copy[big.length];" + tail))
                if d == 2:
                    out.append((f'{dest} copy[v.length] via parameter, {el} big[{n}]', decl + f"empty f(const {el}[] v, int i) {{ int canary = 7; write('<'); {dest} copy[v.length];" + tail
                                + 'empty @is_you(int i) { f(big, i); }\n'))
                    out.append((f'{dest} copy[big.length + gz], {el} big[{n}]', 'int gz = 0;\n' + decl + f"empty @is_you(int i) {{ int canary = 7; write('<'); {dest} copy[big.length + gz];" + tail))
                    out.append((f'{dest} copy[n] with n = big.length, {el} big[{n}]', decl + f"empty @is_you(int i) {{ int canary = 7; int n = big.length; write('<'); {dest} copy[n];" + tail))
    return out


# ---------------------------------------------------------------------------------------------------------------------
# Family N (C01): one name, two meanings.  A global `v` of every kind (mutable / const with a literal / const with a folded
# initialiser; int, byte, bool, string, arrays) is shadowed by a parameter, a run-time local, a literal local, a const local,
# a local of an inner block, a loop variable -- of the same and of another type -- and read again after the shadow has ended.
SH_GLOBALS = [
    ('int v = 3;', 'int'), ('const int v = 3;', 'int'), ('const int v = 1 + 2;', 'int'), ("const byte v = 'c';", 'byte'), ("byte v = 'c';", 'byte'),
    ('const bool v = true;', 'bool'), ('const string v = "gl";', 'string'), ('const int[] v = [5, 6];', 'arr'), ('int[] v = [5, 6];', 'arr'),
    ('const int v = 300;', 'int'), ('const int v = 0;', 'int'),
]
SH_SHOWG = {'int': 'write(\'g\'); writeln(v);', 'byte': 'write(\'g\'); writeln(v);', 'bool': 'write(\'g\'); writeln(v);', 'string': 'write(\'g\'); writeln(v);',
            'arr': 'write(\'g\'); write(v[0]); writeln(v.length);'}
SH_USE_MUT = "writeln(v); v += 1; writeln(v); v = v * 2; writeln(v + 1); int w = v; writeln(w); writeln(twice(v)); if (v > 20) { write('B'); } writeln(v == 3);"
SH_USE_RO = "writeln(v); writeln(v + 1); int w = v; writeln(w); writeln(twice(v)); if (v > 20) { write('B'); } writeln(v == 3); writeln(-v);"
SH_SHADOWERS = [
    ('parameter', 'empty f(int v) { ' + SH_USE_MUT + ' }', 'f(n + 10);'),
    ('run-time local', 'empty f(int n) { int v = n + 10; ' + SH_USE_MUT + ' }', 'f(n);'),
    ('literal local', 'empty f(int n) { int v = 10; ' + SH_USE_MUT + ' }', 'f(n);'),
    ('const literal local', 'empty f(int n) { const int v = 10; ' + SH_USE_RO + ' }', 'f(n);'),
    ('const run-time local', 'empty f(int n) { const int v = n + 10; ' + SH_USE_RO + ' }', 'f(n);'),
    ('inner block', 'empty f(int n) { showg(); { int v = n + 10; ' + SH_USE_MUT + ' } showg(); if (n >= 0) { int v = n + 20; writeln(v); } showg(); }', 'f(n);'),
    ('loop variable', 'empty f(int n) { for (int v = n; v < n + 2; v += 1) { ' + SH_USE_RO + ' } showg(); }', 'f(n);'),
    ('array parameter', 'empty f(const int[] v) { writeln(v[0]); writeln(v.length); writeln(twice(v[1])); }', 'f([n, 7, 8]);'),
    ('string parameter', 'empty f(string v) { writeln(v); writeln(v.length); write(v[0]); }', 'f("param");'),
    ('byte parameter', "empty f(byte v) { writeln(v); v += 1; writeln(v); writeln(v is int + 1); }", "f('p');"),
    ('bool local', 'empty f(int n) { bool v = n > 2; writeln(v); v = not v; writeln(v); if (v) { write(\'T\'); } }', 'f(n);'),
    ('entry parameter', None, None),
]


def shadow_programs():
    out = []
    for g, gt in SH_GLOBALS:
        for name, fdef, call in SH_SHADOWERS:
            if fdef is None:
                # the entry point's own parameter shadows the global
                src = (g + '\nint twice(int q) { return q * 2; }\nempty showg() { ' + SH_SHOWG[gt] + ' }\n'
                       'empty @is_you(int v) { showg(); ' + SH_USE_MUT + ' showg(); }\n')
            else:
                src = (g + '\nint twice(int q) { return q * 2; }\nempty showg() { ' + SH_SHOWG[gt] + ' }\n' + fdef + '\n'
                       'empty @is_you(int n) { showg(); ' + call + ' showg(); ' + call + ' }\n')
            out.append((f'N[{g} shadowed by {name}]', src))
    return out


SH_INPUTS = [['0'], ['5'], ['-7']]
