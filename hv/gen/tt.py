"""Generators for the time-travel families of C02 (DESIGN.md section 6, C02):
T (single try), H (histories of tries), Q (speculation operator), P (return protection)."""
import itertools

TT_PRELUDE = """
int g = 5;
empty !df(int v) { write('d'); !truth_is_defeat(v == 2); write('e'); }
empty !always() { write('A'); !is_defeat(); }
empty !pre(int v) { write('['); preempt { write('P'); return; } write(']'); !truth_is_defeat(v == 0); }
empty !rec(int n) { if (n <= 0) { return; } write('r'); preempt { write('p'); return; } !rec(n - 1); !truth_is_defeat(n == 1); }
empty !deep(int v) { int[] loc = [v, v]; write('{'); !df(loc[1]); write('}'); }
empty @y(int v) { write('y'); write(v); try { !truth_is_defeat(v == 1); write('Y'); } undo { write('U'); } }
int f(int x) { g += 1; write('f'); write(x); return x * 2 + g; }
int !val(int v) { write('v'); !truth_is_defeat(v == 2); return v * 3 + 1; }
bool chk(int v) { g += 1; write('k'); return v == 1; }
empty @ys(int v) { int pad = v + 1; int[] deep = [v, 9]; try { !truth_is_defeat(v == 1); write('Y'); } stop { write('S'); } write(pad); write(deep[1]); }
"""

# non-nesting atoms
T_BASE = [
    "write('a');",
    "x += 1;",
    "!is_defeat();",
    "!truth_is_defeat(x == 1);",
    "!df(x);",
    "!always();",
    "!pre(x);",
    "!rec(x);",
    "return;",
    "{ int[] t = [x, 2]; can[0] = t[1]; !truth_is_defeat(x == 0); }",
    "!deep(x);",
    "write(f(x));",
    "write(!val(x));",
    "x = (!val(x) + f(1)) % 4;",
    "write(\"str\"); writeln(x);",
    "writeln(0 - x - 1);",
    # the condition itself has effects (output, a global store): they belong to the timeline in which defeat is reached
    "!truth_is_defeat(chk(x)); write(g);",
    # strict 0/1 booleans and threaded comparison jumps decide between continuing and defeat
    "{ bool bq = (x * 2) is bool; write(bq is int); !truth_is_defeat(bq == true); }",
    "if (not (x == 1)) { write('n'); } else { !truth_is_defeat(g > 5); } if (x > 1 or g > 7) { write('o'); } else { !is_defeat(); }",
]


def t_atoms():
    atoms = list(T_BASE)
    for a in T_BASE:
        atoms.append(f"preempt {{ write('q'); {a} }}")
    for a in T_BASE:
        atoms.append(f"if (x == 1) {{ {a} }}")
    for a in T_BASE:
        atoms.append(f"for (int i = 0; i < 2; i += 1) {{ write('l'); {a} }}")
    for a in T_BASE:
        atoms.append(f"for (int i = 0; i < 2; i += 1) {{ write('l'); if (i == 0) {{ continue; }} {a} }}")
    for a in T_BASE:
        atoms.append(f"for (int i = 0; i < 2; i += 1) {{ if (i == 1) {{ break; }} {a} write('m'); }}")
    return atoms + pl_atoms()


# preempt blocks inside loops inside try bodies: every way a preempt body can end (return / break / continue / fall through, alone
# and behind a condition that hides one of them from an exit-mode analysis) x where defeat comes from (in the loop, after it, both)
PL_BODIES = [
    "write('q'); return;", "write('q'); break;", "write('q'); continue;", "write('q'); if (i == 0) { continue; } return;", "write('q'); if (i == 0) { continue; } break;",
    "write('q'); if (i == 1) { break; } return;", "write('q'); if (x == 1) { return; }", "write('q'); if (i == 0) { continue; } write('w');", "write('q'); x += 1;",
    "write('q'); if (i < 2) { continue; } return;", "write('q'); while (i < 2) { i += 1; continue; } return;",
    # the visible return / break is never reached: the hidden continue is always taken
    "write('q'); if (i < 5) { continue; } return;", "write('q'); if (x < 5) { break; } return;", "write('q'); if (i >= 0) { continue; } break;", "write('q'); if (x < 5) { continue; } return;",
]
PL_INNER = ["", "!truth_is_defeat(x == 1);", "!truth_is_defeat(i == x);", "!is_defeat();", "!truth_is_defeat(i == 2);"]
PL_AFTER = ["", "!truth_is_defeat(x == 2);", "!is_defeat();"]


def pl_atoms():
    out = []
    for pb in PL_BODIES:
        for inner in PL_INNER:
            for after in PL_AFTER:
                if not inner and not after:
                    continue
                out.append(f"for (int i = 0; i < 3; i += 1) {{ write('l'); preempt {{ {pb} }} write('m'); {inner} }} write('o'); {after}")
    return out


T_HBODIES = [
    "write('h');",
    "write('h'); return;",
    "try { write('n'); !truth_is_defeat(x == 2); } undo { write('u'); }",
    "@y(x);",
]

T_ARGVS = [['0'], ['1'], ['2']]
T_BATCH = 8


def family_T(tier):
    atoms = t_atoms()
    n_all = len(atoms)
    n = n_all - len(pl_atoms())
    nb = len(T_BASE)
    if tier == 'thorough':
        bodies = [(i,) for i in range(n)] + [(i, j) for i in range(n) for j in range(n)]
    else:
        # quick: all pairs in which at least one member is a base (non-nesting) atom
        bodies = [(i,) for i in range(n)] + [(i, j) for i in range(n) for j in range(n) if i < nb or j < nb]
    if tier == 'thorough':
        red = list(range(len(T_BASE))) + [len(T_BASE) + k for k in (2, 3, 6)] + [2 * len(T_BASE) + 3, 3 * len(T_BASE) + 2]
        bodies += [(i, j, k) for i in red for j in red for k in red]
    cases = []
    for b in bodies:
        for h in ('undo', 'stop'):
            cases.append((b, h, 0))
    # the other handler bodies on all single-atom bodies (quick) / all bodies of length <= 2 over base atoms (thorough)
    small = [(i,) for i in range(n)]
    if tier == 'thorough':
        small += [(i, j) for i in range(len(T_BASE)) for j in range(len(T_BASE))]
    for b in small:
        for h in ('undo', 'stop'):
            for hb in (1, 2, 3):
                cases.append((b, h, hb))
    for i in range(n, n_all):
        for h in ('undo', 'stop'):
            for hb in ((0, 1) if tier == 'thorough' or i % 2 else (0,)):
                cases.append(((i,), h, hb))
    return [('T', cases[i:i + T_BATCH]) for i in range(0, len(cases), T_BATCH)]


def build_T(chunk):
    atoms = t_atoms()
    funcs = []
    calls = []
    for k, (b, h, hb) in enumerate(chunk):
        body = ' '.join(atoms[i] for i in b)
        funcs.append(f"empty @t{k}(int x) {{ int[] can = [7, 8]; try {{ {body} }} {h} {{ {T_HBODIES[hb]} }} "
                     f"write('z'); write(x); write(can[0]); write(can[1]); }}")
        calls.append(f'write("#{k}:"); @t{k}(x); writeln();')
    return TT_PRELUDE + '\n'.join(funcs) + '\nempty @is_you(int x) {\n' + '\n'.join(calls) + '\n}\n'


# ---------------------------------------------------------------------------
# R: value-returning you-functions that return from inside a try (the return expression itself may defeat)
# ---------------------------------------------------------------------------
R_PRE = ["", "write('a');", "x += 1;", "preempt { write('q'); return 5; }", "!df(x);"]
R_EXPR = ["!val(x)", "!val(x) + f(1)", "x", "!val(!val(x) / 3)", "f(!val(x))", "[!val(x), 7][0]"]
R_HB = ["write('h');", "write('h'); return -1;", "return f(3);"]
R_SHAPES = [
    "int @r{k}(int x) {{ try {{ {pre} return {e}; }} {h} {{ {hb} }} return 9; }}",
    "int @r{k}(int x) {{ for (int i = 0; i < 3; i += 1) {{ try {{ {pre} if (i == 0) {{ continue; }} return {e}; }} {h} {{ {hb} }} x += 1; }} return 9; }}",
    "int @r{k}(int x) {{ int[] c = [4, 5]; try {{ int[] t = [x, 1]; {pre} return {e} + t[1]; }} {h} {{ {hb} }} return c[1]; }}",
]


def family_R(tier):
    cases = []
    for sh in range(len(R_SHAPES)):
        for pre in range(len(R_PRE)):
            for e in range(len(R_EXPR)):
                for h in ('undo', 'stop'):
                    for hb in range(len(R_HB)):
                        cases.append((sh, pre, e, h, hb))
    if tier == 'quick':
        cases = [c for i, c in enumerate(cases) if i % 2 == 0 or c[2] == 0]
    return [('R', cases[i:i + T_BATCH]) for i in range(0, len(cases), T_BATCH)]


def build_R(chunk):
    funcs = []
    calls = []
    for k, (sh, pre, e, h, hb) in enumerate(chunk):
        funcs.append(R_SHAPES[sh].format(k=k, pre=R_PRE[pre], e=R_EXPR[e], h=h, hb=R_HB[hb]))
        calls.append(f'write("#{k}:"); writeln(@r{k}(x));')
    return TT_PRELUDE + '\n'.join(funcs) + '\nempty @is_you(int x) {\n' + '\n'.join(calls) + '\n}\n'


# ---------------------------------------------------------------------------
# H: histories
# ---------------------------------------------------------------------------

H_BODIES = [
    "write('a'); !is_defeat();",
    "write('a'); !truth_is_defeat(x == 1);",
    "!df(x);",
    "x += 1; !truth_is_defeat(x == 2);",
    "preempt { write('p'); x += 1; } !truth_is_defeat(x == 1);",
    "!pre(x); write('k');",
    "write('a');",
    "for (int i = 0; i < 2; i += 1) { if (i == 1) { break; } !truth_is_defeat(x == i); }",
    "{ int[] t = [x]; !truth_is_defeat(t[0] == 2); }",
    "!deep(x);",
]
H_BLOCKS = [(b, h) for b in range(len(H_BODIES)) for h in ('undo', 'stop')]
H_ARGVS = [['0'], ['1'], ['2']]
H_BATCH = 6


def family_H(tier):
    n = len(H_BLOCKS)
    seqs = [(i, j) for i in range(n) for j in range(n)]
    if tier == 'thorough':
        seqs += [(i, j, k) for i in range(n) for j in range(n) for k in range(n)]
    else:
        red = [1, 2, 5, 11, 12, 19]      # stop after/before undo with defeat-function calls, preemptive functions
        seqs += [(i, j, k) for i in red for j in red for k in red]
    cases = []
    for s in seqs:
        cases.append((s, 'line'))
    for s in seqs[:n * n]:
        cases.append((s, 'loop'))
        cases.append((s, 'func'))
    # the function's own tries come after calls of other you-functions (and of itself) that contain tries of their own
    for i in range(n):
        for j in ([1, 2, 5, 11, 12, 19] if tier == 'quick' else range(n)):
            cases.append(((i, j), 'call'))
    return [('H', cases[i:i + H_BATCH]) for i in range(0, len(cases), H_BATCH)]


def _h_block(bi, tag):
    b, h = H_BLOCKS[bi]
    return f"try {{ {H_BODIES[b]} write('{tag}'); }} {h} {{ write('h'); }} write('.'); "


def build_H(chunk):
    funcs = []
    calls = []
    for k, (seq, shape) in enumerate(chunk):
        blocks = ' '.join(_h_block(bi, 'bcd'[j]) for j, bi in enumerate(seq))
        if shape == 'line':
            funcs.append(f"empty @t{k}(int x) {{ {blocks} write(x); }}")
            calls.append(f'write("#{k}:"); @t{k}(x); writeln();')
        elif shape == 'loop':
            funcs.append(f"empty @t{k}(int x) {{ for (int n = 0; n < 3; n += 1) {{ {blocks} x = (x + 1) % 3; }} write(x); }}")
            calls.append(f'write("#{k}:"); @t{k}(x); writeln();')
        elif shape == 'call':
            funcs.append(f"empty @t{k}(int x) {{ int[] keep = [x, 5]; @ys(x); if (x == 0) {{ @t{k}(2); }} {blocks} write(x); write(keep[0]); write(keep[1]); }}")
            calls.append(f'write("#{k}:"); @t{k}(x); writeln();')
        else:
            funcs.append(f"empty @t{k}(int x) {{ {blocks} write(x); }}")
            calls.append(f'write("#{k}:"); @t{k}(x); @t{k}((x + 1) % 3); writeln();')
    return TT_PRELUDE + '\n'.join(funcs) + '\nempty @is_you(int x) {\n' + '\n'.join(calls) + '\n}\n'


# ---------------------------------------------------------------------------
# Q: speculation
# ---------------------------------------------------------------------------

Q_PRELUDE = """
int g = 5;
int g3 = 0;
byte gb = 'm';
bool gt = false;
int f(int x) { g += 1; write('f'); write(x); write(' '); return x * 2 + g; }
int id(int x) { write('i'); return x; }
int dz(int x) { write('z'); return 12 / x; }
int rg() { write('r'); return g; }
bool p(int x) { write('p'); g += 2; return x > 1; }
byte q(byte x) { write('q'); return x; }
empty h2(int x, int y) { write(x); write(','); write(y); }
"""
Q_LEFT = ['3', 'x', 'g', 'f(x)', 'id(x)', 'dz(x)', 'f(g)', 'rg()', '(x + g)']
Q_RIGHT = ['0', 'x', 'g', 'id(x)', 'f(1)', '6', '12', '(x * 2)', '(g - 2)']
Q_POS = [
    'writeln({s});',
    'int w = {s}; writeln(w);',
    'g = {s}; writeln(g);',
    'g3 = {s}; writeln(g3);',
    'int w = 1; w += {s}; writeln(w);',
    'g += {s}; writeln(g);',
    'h2({s}, 1);',
    'h2(id(9), {s});',
    'int[] t = [4, 4]; t[0] = {s}; writeln(t[0]);',
    "if (({s}) > 2) {{ write('T'); }} else {{ write('F'); }}",
    'writeln(({s}) + ({s2}));',
    'int[] t = [{s}, 2]; writeln(t[0]);',
    'return {s};',
    'writeln(-({s}));',
    'int v[(({s}) % 3 + 3) % 3 + 1]; writeln(v.length);',
]
Q_OTHER = [
    # bool / byte typed speculation
    ('bool', 'writeln(p(x) ?? true);'), ('bool', 'writeln(p(x) ?? false);'), ('bool', 'gt = p(x) ?? gt; writeln(gt);'),
    ('bool', "if ((x > 0) ?? p(2)) { write('T'); } else { write('F'); }"),
    ('bool', "bool w = (not p(x)) ?? (x == 0); writeln(w);"),
    ('byte', "byte b = (x is byte); write(q(b) ?? 'a'); writeln();"),
    ('byte', "byte b = 'a'; gb = q(b) ?? 'a'; write(gb); writeln();"),
    ('byte', "byte b = (x + 97) is byte; gb = gb ?? b; write(gb); writeln();"),
    ('byte', "byte[] ys = ['a', 'b']; ys[1] = q(ys[0]) ?? 'b'; write(ys); writeln();"),
    ('int', "bool[] bs = [false, true]; bs[0] = p(x) ?? bs[1]; write(bs[0]); writeln();"),
    # the right operand is always evaluated -- also when the left one is a compile-time constant and the right one
    # has no call: its run-time faults are effects too
    ('int', "writeln(3 ?? (12 / x));"), ('int', "writeln(6 ?? (12 % x));"), ('int', "int[] t = [6, 7]; writeln(6 ?? t[x]);"),
    ('byte', "write('a' ?? \"ab\"[x]); writeln();"), ('bool', "writeln(true ?? (x / x == 1));"),
    ('int', "const int K = 6; int[] t = [6, 7]; writeln(K ?? t[x] + 0); writeln((K + 1) ?? (7 / (x - 1)));"),
    ('int', "const string S = \"ab\"; writeln(2 ?? S.length); writeln(98 ?? (S[x] is int));"),
    # an int-typed ?? whose right operand is a byte held in a stack slot: the kept value is a whole word
    ('int', "int w = (x * 150) ?? q('a'); writeln(w);"), ('int', "h2((x * 150 - 2) ?? gb, 1);"), ('int', "h2(id(9), (x * 150 - 2) ?? q(gb));"),
    ('int', "byte[] ys = ['a', 'b']; int w = (x * 150) ?? ys[1]; writeln(w);"), ('int', "int v[((x * 150) ?? gb) % 3 + 1]; writeln(v.length);"),
    ('int', "writeln(((x * 150) ?? q('a')) + f(1));"), ('int', "string s = \"ab\"; int w = (0 - x * 200) ?? s[1]; writeln(w); writeln((x * 300) ?? s[0]);"),
    ('int', "int[] t = [(x * 150) ?? gb, 2]; writeln(t[0]); return;"),
    # ?? directly as a condition: truthiness of the chosen operand, not equality with 1
    ('bool', "if ((x is bool) ?? true) { write('T'); } else { write('F'); } if ((g is bool) ?? true) { write('T'); } if (((x * 256) is bool) ?? true) { write('T'); } else { write('F'); }"),
    ('bool', "int n = 0; while (((3 - n) is bool) ?? false) { n += 1; } writeln(n); if (not ((x is bool) ?? true)) { write('N'); } if (((x is byte) is bool) ?? true and x > 0) { write('A'); }"),
    ('bool', "string s = \"ab\"; int[] a2 = [x, x]; if ((s is bool) ?? true) { write('S'); } if ((a2 is bool) ?? false) { write('A'); } writeln(((x + 2) is bool) ?? true);"),
]
Q_ARGVS = [['0'], ['1'], ['3']]
Q_BATCH = 10


def family_Q(tier):
    cases = []
    for pi in range(len(Q_POS)):
        for l in Q_LEFT:
            for r in Q_RIGHT:
                cases.append((pi, l, r))
    if tier == 'quick':
        cases = [c for i, c in enumerate(cases) if (i % 2 == 0) or c[0] in (2, 3, 5)]
    out = [('Q', cases[i:i + Q_BATCH]) for i in range(0, len(cases), Q_BATCH)]
    out.append(('Q2', list(range(len(Q_OTHER)))))
    return out


def build_Q(chunk):
    funcs = []
    calls = []
    for k, (pi, l, r) in enumerate(chunk):
        s = f'{l} ?? {r}'
        body = Q_POS[pi].format(s=s, s2=f'{r} ?? {l}' if pi == 10 else '')
        if pi == 12:
            funcs.append(f'int @c{k}(int x) {{ {body} }}')
            calls.append(f'write("#{k}:"); writeln(@c{k}(x));')
        else:
            funcs.append(f'empty @c{k}(int x) {{ {body} }}')
            calls.append(f'write("#{k}:"); @c{k}(x); writeln();')
    return Q_PRELUDE + '\n'.join(funcs) + '\nempty @is_you(int x) {\n' + '\n'.join(calls) + '\n}\n'


def build_Q2(chunk):
    funcs = []
    calls = []
    for k, i in enumerate(chunk):
        funcs.append(f'empty @c{k}(int x) {{ {Q_OTHER[i][1]} }}')
        calls.append(f'write("#{k}:"); @c{k}(x); writeln();')
    return Q_PRELUDE + '\n'.join(funcs) + '\nempty @is_you(int x) {\n' + '\n'.join(calls) + '\n}\n'



# ---------------------------------------------------------------------------
# O: you-functions and defeat functions of different kinds called (hence generated) in every order
# ---------------------------------------------------------------------------

O_PRELUDE = """
int g = 5;
empty !pf(int v) { write('('); preempt { write('!'); return; } write(')'); !truth_is_defeat(v == 1); }
empty !np(int v) { write('n'); !truth_is_defeat(v == 2); write('N'); }
int !nv(int v) { write('v'); !truth_is_defeat(v == 0); return v + 1; }
int pl(int v) { g += 1; return v + g; }
"""
O_FUNCS = [
    ("empty @a(int v) { int[] p = [v, 4]; try { !truth_is_defeat(v == 1); write('A'); } stop { write('a'); } write(p[1]); }", "@a(x);"),
    ("empty @b(int v) { try { write('B'); !truth_is_defeat(v == 1); write('+'); } undo { write('b'); } }", "@b(x);"),
    ("empty @c(int v) { int q = v + 7; try { !pf(v); write('C'); } stop { write('c'); } write(q); }", "@c(x);"),
    ("empty @d(int v) { try { !np(v); write('D'); !pf(v); } undo { write('d'); } }", "@d(x);"),
    ("int @e(int v) { return pl(v) ?? 8; }", "write(@e(x));"),
    ("empty @f(int v) { try { write(!nv(v)); !np(v); } stop { write('f'); } try { !np(v + 1); } stop { write('F'); } }", "@f(x);"),
    ("int @h(int v) { try { return !nv(v) + pl(1); } stop { write('h'); } return 0 - 1; }", "write(@h(x));"),
    ("empty @i(int v) { for (int k = 0; k < 2; k += 1) { try { !truth_is_defeat(v == k); write('I'); } undo { write('i'); continue; } write(k); } }", "@i(x);"),
    ("empty @j(int v) { int a[v + 1]; a[v] = 3; try { int b[v + 2]; b[0] = 4; !pf(v); write(b[0]); } stop { write('j'); } write(a[v]); write(a.length); }", "@j(x);"),
]
O_ARGVS = [['0'], ['1'], ['2']]
O_BATCH = 10


def family_O(tier):
    k = 5 if tier == 'thorough' else 3
    n = len(O_FUNCS)
    perms = []
    for combo in itertools.combinations(range(n), k):
        if tier == 'quick' and sum(combo) % 4 != 1:
            continue
        perms.extend(itertools.permutations(combo))
    if tier == 'thorough':
        perms = perms[::5]
    pairs = [(i, j) for i in range(n) for j in range(n) if i != j]
    perms = pairs + perms
    return [('O', perms[i:i + O_BATCH]) for i in range(0, len(perms), O_BATCH)]


def build_O(order):
    decls = '\n'.join(O_FUNCS[i][0] for i in sorted(order))
    calls = " write('|'); ".join(O_FUNCS[i][1] for i in order)
    again = " write('|'); ".join(O_FUNCS[i][1] for i in order[:2])
    # in half of the programs the defeat functions are first referenced (hence generated) from a try/undo of the entry
    # point, before any function with a try/stop has been seen
    first = "try { !np(x + 5); write(!nv(x + 1)); !pf(x + 3); write('z'); } undo { write('Z'); } " if sum(order) % 2 == 0 else ''
    return O_PRELUDE + decls + f"\nempty @is_you(int x) {{ {first}{calls} write('#'); {again} writeln(g); }}\n"

# ---------------------------------------------------------------------------
# P: return protection of preemptive defeat functions
# ---------------------------------------------------------------------------

P_FUNCS = [
    "empty !pf(int v) { write('('); if (v == 9) { preempt { write('!'); } } write(')'); }",
    "empty !pf(int v) { write('('); preempt { write('!'); return; } write(')'); }",
    "empty !pf(int v) { write('('); preempt { write('!'); } !truth_is_defeat(v == 1); write(')'); }",
    "empty !pf(int v) { write('('); if (v > 0) { !pf(v - 1); } preempt { write('!'); } write(')'); }",
    "int !pf(int v) { write('('); preempt { write('!'); return 7; } write(')'); return v; }",
    # the preempt block may sit anywhere in the function, even where it cannot be reached
    "empty !pf(int v) { write('('); if (v == 9) { write('-'); } else { if (v == 8) { preempt { write('!'); } } } write(')'); }",
    "empty !pf(int v) { write('('); if (v == 9) { write('-'); } else if (v == 8) { write('+'); } else { preempt { write('!'); } } write(')'); }",
    "empty !pf(int v) { write('('); while (v == 9) { preempt { write('!'); } v += 1; } write(')'); }",
    "empty !pf(int v) { write('('); for (int i = 7; i < v - 3; i += 1) { preempt { write('!'); } } write(')'); }",
    "empty !pf(int v) { write('('); { { if (false) { preempt { write('!'); } } } } write(')'); }",
    "empty !pf(int v) { write('('); for (;;) { if (v < 9) { break; } preempt { write('!'); } v -= 1; } write(')'); }",
    # the value returned is itself computed by a defeat function: the return check comes after that evaluation
    "int !pf(int v) { write('('); for (int i = 0; i < 2; i += 1) { preempt { write('!'); } } write(')'); return !hv(v) + 1; }",
    "int !pf(int v) { write('('); preempt { write('!'); return !hv(v + 1); } write(')'); return !hv(v); }",
]
P_AFTER = [
    "",
    "!is_defeat();",
    "!truth_is_defeat(x == 1);",
    "preempt { write('s'); return; } !is_defeat();",
    "x += 1; !truth_is_defeat(x == 2);",
    "!pf(x); !truth_is_defeat(x == 0);",
    "write('k'); preempt { write('s'); x = 5; } !truth_is_defeat(x == 2);",
    # a non-preemptive defeat function generated right after the preemptive one must not inherit its return check
    "!np(x); !truth_is_defeat(x == 1);",
    "!np(x); !is_defeat();",
    "write(!nv(x)); !truth_is_defeat(x == 2);",
]
P_ARGVS = [['0'], ['1'], ['2']]


def family_P(tier):
    cases = []
    for fi in range(len(P_FUNCS)):
        for ai in range(len(P_AFTER)):
            for h in ('undo', 'stop'):
                cases.append((fi, ai, h))
    return [('P', cases[i:i + 1]) for i in range(0, len(cases), 1)]


def build_P(chunk):
    (fi, ai, h), = chunk
    callx = '!pf(x);' if not P_FUNCS[fi].startswith('int') else 'write(!pf(x));'
    after = P_AFTER[ai].replace('!pf(x);', callx)
    extra = "\nempty !np(int v) { write('n'); }\nint !nv(int v) { write('N'); return v + 1; }\nint !hv(int v) { write('H'); !truth_is_defeat(v == 1); return v * 2; }"
    return (P_FUNCS[fi] + extra + f"\nempty @t(int x) {{ try {{ {callx} write('b'); {after} write('c'); }} {h} {{ write('h'); }} write(x); }}\n"
            "empty @is_you(int x) { @t(x); writeln(); write('w'); }\n")
