"""Thin driver around the compiler under test.  Everything is imported from /repo's
current working tree (hidc is an editable install in /venv); nothing is cached
between processes."""
import os
import sys

REPO = os.environ.get('HV_REPO', '/repo')
if REPO not in sys.path:
    sys.path.insert(0, REPO)

from hidc.lexer import SourceCode, lex            # noqa: E402
from hidc.parser import parse                     # noqa: E402
from hidc.ast import Environment                  # noqa: E402
from hidc.codegen import CodeGen                  # noqa: E402
from hidc.errors import CompilerError, LexerError, ParserError, TypeCheckError, CodeGenError  # noqa: E402

from . import svm                                 # noqa: E402

GEN_STACK = 256


def typecheck(source, lint=False, word_size=2):
    """Parse + typecheck exactly as hidc.__main__.main() does (same Environment options)."""
    env = Environment.empty(unreachable_error=lint, word_size=word_size)
    src = SourceCode.from_string(source)
    ast = parse(src).evaluate(env)
    return env, ast


def compile_lines(source, word_size=2, stack_size=GEN_STACK, unchecked=False, lint=False):
    """Return the list of assembly lines (bytes).  CompilerError propagates."""
    env, _ = typecheck(source, lint, word_size)
    cg = CodeGen(env, word_size, stack_size, unchecked)
    return list(cg.gen_lines())


def build(source, argv=(), word_size=2, stack_size=GEN_STACK, unchecked=False, lint=False):
    return svm.assemble(compile_lines(source, word_size, stack_size, unchecked, lint), argv)


def execute(source, argv=(), word_size=2, stack_size=GEN_STACK, unchecked=False, lint=False,
            max_steps=2_000_000, mon=None):
    P = build(source, argv, word_size, stack_size, unchecked, lint)
    return svm.run(P, max_steps, mon)
