"""Run one generated case through both the reference model and the implementation
(hidc from /repo -> strict assembler -> exploring VM) and compare committed traces."""
import traceback

from . import hid, svm
from .ref import types as rtypes
from .ref import interp
from .ref.core import pprog
from .runner import HarnessError


class Stats(dict):
    """Additive coverage counters for one work item."""

    def add(self, k, n=1):
        self[k] = self.get(k, 0) + n

    def count(self, group, key, n=1):
        d = self.setdefault(group, {})
        d[key] = d.get(key, 0) + n

    def viol(self, msg, case, key=None, **extra):
        v = {'msg': msg, 'case': case}
        if key:
            v['key'] = key
        v.update(extra)
        self.setdefault('viol', []).append(v)

    def sample(self, s):
        lst = self.setdefault('samples', [])
        if len(lst) < 2:
            lst.append(s)

    def vm(self, r):
        self.add('states', r.steps)
        self.add('transitions', r.steps + r.rollbacks)
        self.add('choice_points', r.choices)
        self.add('rollbacks', r.rollbacks)
        self.add('executions')
        self.add('speculative_halts', r.spec_halts)
        if r.maxdepth > self.get('max_choice_depth', 0):
            self['max_choice_depth'] = r.maxdepth
        if r.outcome == 'loop':
            self.add('cycles_closed')
        if r.mon_points:
            for k, v in r.mon_points.items():
                self.count('monitor_points', k, v)


def compile_case(src, W=2, S=hid.GEN_STACK, unchecked=False, lint=False):
    """Returns (lines, None) or (None, (kind, message)).  kind: 'reject' (CompilerError), 'crash'."""
    try:
        return hid.compile_lines(src, W, S, unchecked, lint), None
    except hid.CompilerError as e:
        return None, ('reject', f'{type(e).__name__}: {e}')
    except RecursionError:
        return None, ('crash', 'RecursionError')
    except Exception as e:
        return None, ('crash', f'{type(e).__name__}: {e}\n' + traceback.format_exc(limit=4))


def run_impl(src, argv, W=2, S=hid.GEN_STACK, unchecked=False, mon=None, max_steps=2_000_000, lines=None):
    """Returns (result, error).  error is (kind, msg) with kind in reject/crash/asm."""
    if lines is None:
        lines, err = compile_case(src, W, S, unchecked)
        if err:
            return None, err
    try:
        P = svm.assemble(lines, argv, strict_header=True)
    except svm.AsmError as e:
        return None, ('asm', f'assembler rejects output: {e}')
    return svm.run(P, max_steps, mon), None


def ref_trace(prog, argv, W=2, checked=True, **kw):
    """Reference trace for a generated (well-typed by construction) program."""
    try:
        ep = rtypes.elaborate(prog)
    except (rtypes.Reject, rtypes.Unspecified) as e:
        raise HarnessError(f'generator produced a program the reference typechecker does not accept: {e}\n{pprog(prog)}')
    try:
        return interp.run(ep, argv, W, checked, **kw)
    except interp.ModelError as e:
        raise HarnessError(f'generated program leaves the model: {e}\n{pprog(prog)}\nargv={argv}')


def describe(r):
    if r.outcome == 'trap':
        return f'trap({r.trap}) after {svm.fmt_events(r.pre)}'
    if r.outcome == 'halt':
        return f'COMMITTED HALT after {svm.fmt_events(r.pre)}'
    if r.outcome == 'budget':
        return f'step budget exhausted after {svm.fmt_events(r.pre[:200])}'
    return svm.fmt_trace(r.trace)


def check_conformance(st, src, prog, argv, W, S=hid.GEN_STACK, unchecked=False, mon=True, lines=None, tag='',
                      ref=None, extra_case=None):
    """Compare reference and implementation on one (program, input, configuration).
    Records stats and violations in `st`; returns the VM result (or None)."""
    case = {'kind': 'conformance', 'src': src, 'prog': repr(prog), 'argv': list(argv), 'W': W, 'S': S,
            'unchecked': unchecked, 'tag': tag}
    if extra_case:
        case.update(extra_case)
    if ref is None:
        ref = ref_trace(prog, argv, W, checked=not unchecked)
    status, rtr, info = ref
    if status == 'budget':
        st.add('inconclusive')
        return None
    st.add('ref_replays', info['runs'])
    m = svm.Monitor() if mon else None
    r, err = run_impl(src, argv, W, S, unchecked, m, lines=lines)
    st.add('evaluations')
    if err:
        st.viol(f'{tag}: {err[0]}: {err[1]}', case)
        return None
    st.vm(r)
    if r.outcome == 'budget':
        st.add('inconclusive')
        return r
    if status == 'halt':
        # the model itself reaches committed defeat: generator bug unless the family wants it
        raise HarnessError(f'reference reaches committed defeat\n{src}\nargv={argv}')
    if r.outcome != 'loop' or r.trace != rtr:
        case['expected'] = svm.fmt_trace(rtr)
        case['observed'] = describe(r)
        st.viol(f'{tag}: trace differs from reference: expected {svm.fmt_trace(rtr)[:300]} observed {describe(r)[:300]}', case)
    else:
        st.add('traces_validated_against_impl')
    for v in r.violations:
        c2 = dict(case)
        c2['monitor'] = v
        st.viol(f'{tag}: monitor[{v["monitor"]}] {v["msg"]} at pc={v["pc"]} `{v["instr"]}` in {v["owner"]}', c2)
        break
    st.count('outcomes', 'error' if 'error' in r.flags else ('win' if 'win' in r.flags else r.outcome))
    return r


def replay_conformance(case):
    """Re-execute one recorded conformance case.  Returns list of failure messages (empty = passes)."""
    import ast
    st = Stats()
    prog = ast.literal_eval(case['prog'])
    check_conformance(st, case['src'], prog, case['argv'], case['W'], case['S'], case['unchecked'], tag=case.get('tag', ''))
    return [v['msg'] for v in st.get('viol', [])]


def _must_be_well_typed(prog, src):
    """Before a rejection is reported as a violation: the reference judgement must accept the program; if it does
    not, the generator is wrong (harness error), not the compiler."""
    try:
        rtypes.elaborate(prog)
    except (rtypes.Reject, rtypes.Unspecified) as e:
        raise HarnessError(f'generator produced a program the reference typechecker does not accept: {e}\n{src}')


def run_program(st, src, argvs, Ws, tag, S=hid.GEN_STACK, unchecked=False, prog=None):
    """Compile once per word size, run every argv, compare with the reference.
    Returns (had_violation, cut_off) where cut_off means some reference run ended in an error
    state or ran forever (so later members of a batch were not reached)."""
    from .ref.parser import parse_program
    if prog is None:
        prog = parse_program(src)
    nviol = len(st.get('viol', []))
    cut = False
    for W in Ws:
        lines, err = compile_case(src, W, S, unchecked)
        if err:
            st.add('evaluations')
            _must_be_well_typed(prog, src)
            st.viol(f'{tag}: well-typed program not compiled: {err[0]}: {err[1]}',
                    {'kind': 'conformance', 'src': src, 'prog': repr(prog), 'argv': list(argvs[0]), 'W': W, 'S': S,
                     'unchecked': unchecked, 'tag': tag})
            continue
        for argv in argvs:
            ref = ref_trace(prog, argv, W, checked=not unchecked)
            if ref[0] == 'ok' and ('f', 'win') not in ref[1][0]:
                cut = True
            check_conformance(st, src, prog, argv, W, S, unchecked, lines=lines, tag=tag, ref=ref)
            st.count('dims', f'W{W}')
    return len(st.get('viol', [])) > nviol, cut


def run_batch(st, build, chunk, argvs, Ws, tag, **kw):
    """Run a batch program; if it fails or is cut off by a terminal state, run every member alone."""
    st.add('cases', len(chunk))
    if len(chunk) == 1:
        run_program(st, build(chunk), argvs, Ws, tag, **kw)
        return
    s0 = Stats()
    bad, cut = run_program(s0, build(chunk), argvs, Ws, tag, **kw)
    viol = s0.pop('viol', [])
    for k, v in s0.items():
        if isinstance(v, dict):
            for kk, vv in v.items():
                st.count(k, kk, vv)
        elif k == 'max_choice_depth':
            st[k] = max(st.get(k, 0), v)
        elif k == 'samples':
            pass
        else:
            st.add(k, v)
    if not (bad or cut):
        return
    st.add('batches_split')
    found = []
    for k, c in enumerate(chunk):
        s1 = Stats()
        run_program(s1, build([c]), argvs, Ws, f'{tag}#{k}', **kw)
        found.extend(s1.pop('viol', [])[:1])
        for kk, v in s1.items():
            if isinstance(v, dict):
                for k3, vv in v.items():
                    st.count(kk, k3, vv)
            elif kk == 'max_choice_depth':
                st[kk] = max(st.get(kk, 0), v)
            elif kk != 'samples':
                st.add(kk, v)
    if bad and not found:
        found = viol[:1]
    if found:
        st.setdefault('viol', []).extend(found)


def std_coverage(total, bounds):
    cov = {k: total.get(k, 0) for k in ('states', 'transitions', 'traces_validated_against_impl', 'executions',
                                         'choice_points', 'rollbacks', 'max_choice_depth', 'cycles_closed',
                                         'speculative_halts', 'evaluations', 'cases', 'ref_replays', 'inconclusive',
                                         'batches_split')}
    cov['distinct_outcomes'] = total.get('outcomes', {})
    cov['dims'] = total.get('dims', {})
    cov['family_items'] = total.get('family_items', {})
    cov['monitor_points'] = total.get('monitor_points', {})
    cov['exhaustive'] = total.get('inconclusive', 0) == 0
    cov['bounds'] = bounds
    return cov


# ---------------------------------------------------------------------------
# stack-size sweeps (C04, C08, C17, C18)
# ---------------------------------------------------------------------------

def _patch_stack(lines, S):
    out = list(lines)
    for i, l in enumerate(out):
        if l.strip() == b'stack_start:':
            assert out[i + 1].startswith(b'.zero ') and out[i + 1].endswith(b'w')
            out[i + 1] = b'.zero %dw' % S
            return out
    raise HarnessError('stack_start not found')


def _is_overflow_prefix(r, rtr):
    """r ended in the stack_overflow error and everything before it is a prefix of the reference trace."""
    if r.outcome != 'loop':
        return False
    pre = list(r.pre)
    if len(pre) < 2 or pre[-2:] != [('f', 'stack_overflow'), ('f', 'error')]:
        return False
    body = pre[:-2]
    return list(rtr[0][:len(body)]) == body


def stack_sweep(st, src, prog, argv, W, tag, above=8, unchecked=False, max_S=400, mon_kw=None):
    """Find the smallest stack size S_min at which the run does not overflow; check that
    * every S < S_min ends in exactly the stack_overflow error with output a prefix of the reference,
    * every S in [S_min, S_min+above] and the generous size reproduce the reference trace,
    * no monitor fires anywhere.
    Every size is compiled for real.  Returns S_min."""
    mon_kw = mon_kw or {}
    ref = ref_trace(prog, argv, W, checked=not unchecked)
    if ref[0] != 'ok':
        st.add('inconclusive')
        return None
    rtr = ref[1]
    case0 = {'kind': 'sweep', 'src': src, 'prog': repr(prog), 'argv': list(argv), 'W': W, 'tag': tag, 'above': above,
             'unchecked': unchecked}
    base, err = compile_case(src, W, hid.GEN_STACK, unchecked)
    st.add('evaluations')
    if err:
        st.viol(f'{tag}: not compiled: {err}', case0)
        return None

    def go(lines, S):
        try:
            P = svm.assemble(lines, argv, strict_header=True)
        except svm.AsmError as e:
            return None, f'assembler rejects output: {e}'
        r = svm.run(P, 2_000_000, svm.Monitor(**mon_kw))
        st.vm(r)
        st.count('dims', f'W{W}')
        return r, None

    def bad(S, r, what):
        c = dict(case0)
        c['S'] = S
        c['expected'] = svm.fmt_trace(rtr)
        c['observed'] = describe(r) if r is not None else what
        st.viol(f'{tag}: stack size {S} words (W={W}, argv={argv}): {what}: expected {svm.fmt_trace(rtr)[:200]} observed '
                f'{describe(r)[:200] if r is not None else ""}', c)

    smin = None
    for S in range(1, max_S + 1):
        lines, err = compile_case(src, W, S, unchecked)
        if err:
            bad(S, None, f'not compiled: {err}')
            return None
        r, e = go(lines, S)
        if e:
            bad(S, None, e)
            return None
        if r.violations:
            v = r.violations[0]
            bad(S, r, f'monitor[{v["monitor"]}] {v["msg"]} at `{v["instr"]}` in {v["owner"]}')
            return None
        if r.outcome == 'loop' and r.trace == rtr:
            smin = S
            break
        if not _is_overflow_prefix(r, rtr):
            bad(S, r, 'neither the stack_overflow error with a clean output prefix nor the reference behaviour (silent corruption)')
            return None
        st.add('overflow_runs')
    if smin is None:
        st.add('inconclusive')
        return None
    st.count('smin', str(smin))
    st.add('traces_validated_against_impl')
    for S in list(range(smin + 1, smin + above + 1)) + [hid.GEN_STACK, 4 * hid.GEN_STACK]:
        lines, err = compile_case(src, W, S, unchecked)
        if err:
            bad(S, None, f'not compiled: {err}')
            return smin
        r, e = go(lines, S)
        if e:
            bad(S, None, e)
            return smin
        if r.violations:
            v = r.violations[0]
            bad(S, r, f'monitor[{v["monitor"]}] {v["msg"]} at `{v["instr"]}` in {v["owner"]}')
            return smin
        if not (r.outcome == 'loop' and r.trace == rtr):
            bad(S, r, f'S_min={smin} but a larger stack behaves differently')
            return smin
        st.add('traces_validated_against_impl')
    st.add('sweeps')
    return smin


def replay_sweep(case):
    import ast
    st = Stats()
    prog = ast.literal_eval(case['prog'])
    stack_sweep(st, case['src'], prog, case['argv'], case['W'], case.get('tag', ''), case.get('above', 8),
                unchecked=case.get('unchecked', False))
    return [v['msg'] for v in st.get('viol', [])]
