"""Regenerates the 'as built' block of DESIGN.md (between markers) from MANIFEST.json and the evidence files:
    python -m hv.designsync"""
import json
import os

ROOT = os.path.dirname(os.path.dirname(os.path.abspath(__file__)))


def main():
    man = json.load(open(os.path.join(ROOT, 'MANIFEST.json')))
    out = []
    for c in man['checks']:
        pid = c['property_id']
        evp = os.path.join(ROOT, 'evidence', pid + '.json')
        ev = json.load(open(evp)) if os.path.exists(evp) else None
        out.append(f"### {pid} (as built) -- level `{c['level_claimed']['category']}`")
        out.append('')
        out.append('*Deciding method:* ' + c.get('technique', ''))
        out.append('')
        out.append(c['level_claimed']['text'])
        out.append('')
        if ev:
            cov = ev['coverage']
            b = cov.get('bounds', {})
            if b:
                out.append(f"Bounds of the {ev['tier']} tier (from the last evidence file; the thorough tier widens them as stated in the strings):")
                out.append('')
                for k, v in b.items():
                    out.append(f'* `{k}`: {v}')
                out.append('')
            nums = {k: v for k, v in cov.items() if isinstance(v, (int, float)) and not isinstance(v, bool) and k in (
                'states', 'transitions', 'traces_validated_against_impl', 'executions', 'evaluations', 'distinct_nontrivial', 'cases',
                'choice_points', 'rollbacks', 'max_choice_depth', 'sweeps', 'overflow_runs', 'accepted', 'rejected')}
            out.append(f"Measured on the last {ev['tier']} run ({ev['wall_s']} s): " + ', '.join(f'{k}={v}' for k, v in nums.items()) + '.')
            out.append('')
    text = '\n'.join(out)
    p = os.path.join(ROOT, 'DESIGN.md')
    s = open(p).read()
    a, b = '<!-- ASBUILT -->', '<!-- /ASBUILT -->'
    i, j = s.index(a), s.index(b)
    s = s[:i + len(a)] + '\n' + text + '\n' + s[j:]
    open(p, 'w').write(s)


if __name__ == '__main__':
    main()
